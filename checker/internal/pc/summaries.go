package pc

import (
	"go/ast"
	"go/token"
	"go/types"

	"golang.org/x/tools/go/packages"
)

// writeSet summarises which heap locations a function may write (transitively).
type writeSet struct {
	Fields  map[*types.Var]bool
	Globals map[*types.Var]bool
	Index   bool // stores through an index expression
	All     bool // unknown callee or store through a non-struct pointer
}

func newWriteSet() *writeSet {
	return &writeSet{Fields: map[*types.Var]bool{}, Globals: map[*types.Var]bool{}}
}

func (w *writeSet) merge(o *writeSet) bool {
	ch := false
	for f := range o.Fields {
		if !w.Fields[f] {
			w.Fields[f] = true
			ch = true
		}
	}
	for g := range o.Globals {
		if !w.Globals[g] {
			w.Globals[g] = true
			ch = true
		}
	}
	if o.Index && !w.Index {
		w.Index, ch = true, true
	}
	if o.All && !w.All {
		w.All, ch = true, true
	}
	return ch
}

// Summaries holds module-wide mutation summaries.
type Summaries struct {
	Frozen          map[*types.Var]bool // computed lazily: field never stored to outside literals
	stored          map[*types.Var]bool // fields that are assigned somewhere
	addrTaken       map[*types.Var]bool // fields whose address is taken
	Writes          map[*types.Func]*writeSet
	funcVals        map[*types.Var][]*types.Func // func-typed struct field -> named functions stored in literals (nil entry = unknown)
	funcValsUnknown map[*types.Var]bool
	reads           map[*types.Func]map[*types.Var]bool // fields read directly or through static module callees
	readsHeap       map[*types.Func]bool                // reads through an index/dereference, or calls something unknown
	decls           map[*types.Func]*ast.FuncDecl
	declPkg         map[*types.Func]*packages.Package
}

func (p *Program) Summaries() *Summaries {
	if p.sums != nil {
		return p.sums
	}
	s := &Summaries{
		stored: map[*types.Var]bool{}, addrTaken: map[*types.Var]bool{}, Writes: map[*types.Func]*writeSet{},
		funcVals: map[*types.Var][]*types.Func{}, funcValsUnknown: map[*types.Var]bool{},
		decls: map[*types.Func]*ast.FuncDecl{}, declPkg: map[*types.Func]*packages.Package{},
		reads: map[*types.Func]map[*types.Var]bool{}, readsHeap: map[*types.Func]bool{},
	}
	p.sums = s
	type callEdge struct {
		from    *types.Func
		callee  *types.Func
		iface   bool
		fieldV  *types.Var // call through func-typed field
		unknown bool
	}
	var edges []callEdge
	type cbCall struct {
		fn  *types.Func
		idx int
	}
	var cbCalls []cbCall
	for _, pkg := range p.All {
		info := pkg.TypesInfo
		// composite literals storing named funcs into func-typed fields
		for _, f := range pkg.Syntax {
			ast.Inspect(f, func(n ast.Node) bool {
				cl, ok := n.(*ast.CompositeLit)
				if !ok {
					return true
				}
				st := StructOf(info.TypeOf(cl))
				if st == nil {
					return true
				}
				for i, e := range cl.Elts {
					var fld *types.Var
					var val ast.Expr
					if kv, ok := e.(*ast.KeyValueExpr); ok {
						if id, ok := kv.Key.(*ast.Ident); ok {
							fld, _ = info.Uses[id].(*types.Var)
						}
						val = kv.Value
					} else if i < st.NumFields() {
						fld, val = st.Field(i), e
					}
					if fld == nil {
						continue
					}
					if _, isSig := fld.Type().Underlying().(*types.Signature); !isSig {
						continue
					}
					if fn, ok := objOf(info, val).(*types.Func); ok {
						s.funcVals[fld] = append(s.funcVals[fld], fn)
					} else {
						s.funcValsUnknown[fld] = true
					}
				}
				return true
			})
		}
		for _, fd := range AllFuncs(pkg) {
			fn := FuncObj(pkg, fd)
			s.decls[fn] = fd
			s.declPkg[fn] = pkg
			w := newWriteSet()
			s.Writes[fn] = w
			noteStore := func(lhs ast.Expr) {
				lhs = ast.Unparen(lhs)
				switch x := lhs.(type) {
				case *ast.Ident:
					if v, ok := objOf(info, x).(*types.Var); ok && v.Parent() == v.Pkg().Scope() {
						w.Globals[v] = true
					}
				case *ast.SelectorExpr:
					if fld := selField(info, x); fld != nil {
						w.Fields[fld] = true
						s.stored[fld] = true
					} else if v, ok := info.Uses[x.Sel].(*types.Var); ok && v.Parent() == v.Pkg().Scope() {
						w.Globals[v] = true
					}
				case *ast.IndexExpr:
					w.Index = true
					// a store into a package-level map/slice mutates that global
					if v, ok := objOf(info, x.X).(*types.Var); ok && v.Pkg() != nil && v.Parent() == v.Pkg().Scope() {
						w.Globals[v] = true
					}
				case *ast.StarExpr:
					if st := StructOf(info.TypeOf(x)); st != nil {
						for i := 0; i < st.NumFields(); i++ {
							w.Fields[st.Field(i)] = true
							s.stored[st.Field(i)] = true
						}
					} else {
						w.All = true
					}
				}
			}
			s.reads[fn] = map[*types.Var]bool{}
			ast.Inspect(fd.Body, func(n ast.Node) bool {
				switch x := n.(type) {
				case *ast.SelectorExpr:
					if fld := selField(info, x); fld != nil {
						s.reads[fn][fld] = true
					}
				case *ast.IndexExpr, *ast.StarExpr, *ast.SliceExpr:
					s.readsHeap[fn] = true
				case *ast.AssignStmt:
					for _, l := range x.Lhs {
						noteStore(l)
					}
				case *ast.IncDecStmt:
					noteStore(x.X)
				case *ast.RangeStmt:
					s.readsHeap[fn] = true
					if x.Tok == token.ASSIGN {
						if x.Key != nil {
							noteStore(x.Key)
						}
						if x.Value != nil {
							noteStore(x.Value)
						}
					}
				case *ast.UnaryExpr:
					if x.Op == token.AND {
						if fld := selField(info, x.X); fld != nil {
							s.addrTaken[fld] = true
						}
					}
				case *ast.CallExpr:
					if tv, ok := info.Types[x.Fun]; ok && tv.IsType() {
						return true // conversion
					}
					if id, ok := ast.Unparen(x.Fun).(*ast.Ident); ok {
						if _, isB := info.Uses[id].(*types.Builtin); isB {
							switch id.Name {
							case "delete", "copy", "clear":
								w.Index = true
							}
							return true
						}
					}
					if callee := Callee(info, x); callee != nil {
						isIface := false
						if sel, ok := ast.Unparen(x.Fun).(*ast.SelectorExpr); ok {
							if selc, ok := info.Selections[sel]; ok {
								_, isIface = selc.Recv().Underlying().(*types.Interface)
							}
						}
						edges = append(edges, callEdge{from: fn, callee: callee, iface: isIface})
						return true
					}
					// dynamic: func-typed field, or anything else
					if fld := selField(info, x.Fun); fld != nil {
						edges = append(edges, callEdge{from: fn, fieldV: fld})
						return true
					}
					if _, ok := ast.Unparen(x.Fun).(*ast.FuncLit); ok {
						return true // immediately-invoked literal: body is part of this function
					}
					if id, ok := ast.Unparen(x.Fun).(*ast.Ident); ok {
						if v, ok := info.Uses[id].(*types.Var); ok {
							// a local closure (v := func(){...}; v()): its body is part of this function
							if localClosure(info, fd, v) {
								return true
							}
							// a callback parameter: the effect is that of whatever the callers pass (resolved below)
							if idx := paramIndex(info, fd, v); idx >= 0 {
								cbCalls = append(cbCalls, cbCall{fn: fn, idx: idx})
								return true
							}
						}
					}
					edges = append(edges, callEdge{from: fn, unknown: true})
				}
				return true
			})
		}
	}
	// callback parameters: every call site passes a function literal (whose body already belongs to the caller) or a
	// named module function (an ordinary call edge from the caller); anything else keeps the call unknown
	for _, cb := range cbCalls {
		known := true
		sites := 0
		for _, pkg := range p.All {
			info := pkg.TypesInfo
			for _, fd := range AllFuncs(pkg) {
				caller := FuncObj(pkg, fd)
				ast.Inspect(fd.Body, func(n ast.Node) bool {
					switch x := n.(type) {
					case *ast.CallExpr:
						if c := Callee(info, x); c != nil && (c == cb.fn || c.Origin() == cb.fn) {
							sites++
							if cb.idx >= len(x.Args) {
								known = false
								return true
							}
							switch a := ast.Unparen(x.Args[cb.idx]).(type) {
							case *ast.FuncLit:
							case *ast.SelectorExpr:
								// a method value (finder.visit): an ordinary call edge to the method
								if sel := info.Selections[a]; sel != nil && sel.Kind() == types.MethodVal {
									if f, ok := sel.Obj().(*types.Func); ok {
										edges = append(edges, callEdge{from: caller, callee: f})
										break
									}
								}
								if f, ok := info.Uses[a.Sel].(*types.Func); ok {
									edges = append(edges, callEdge{from: caller, callee: f})
								} else {
									known = false
								}
							default:
								if f, ok := objOf(info, a).(*types.Func); ok {
									edges = append(edges, callEdge{from: caller, callee: f})
								} else if v, ok := objOf(info, a).(*types.Var); ok && localClosure(info, fd, v) {
								} else {
									known = false
								}
							}
						}
					case *ast.Ident:
						// the function used as a value somewhere (not called): callers unknown
						if info.Uses[x] == types.Object(cb.fn) {
							if call, ok := p.Parent(x).(*ast.CallExpr); !ok || ast.Unparen(call.Fun) != ast.Expr(x) {
								if sel, ok := p.Parent(x).(*ast.SelectorExpr); ok {
									if call2, ok := p.Parent(sel).(*ast.CallExpr); ok && ast.Unparen(call2.Fun) == ast.Expr(sel) {
										return true
									}
								}
								known = false
							}
						}
					}
					return true
				})
			}
		}
		if !known {
			edges = append(edges, callEdge{from: cb.fn, unknown: true})
		}
	}
	// transitive closure of reads
	for changed := true; changed; {
		changed = false
		for _, e := range edges {
			if e.unknown || e.fieldV != nil || e.iface {
				if !s.readsHeap[e.from] {
					s.readsHeap[e.from], changed = true, true
				}
				continue
			}
			c := e.callee
			if _, ok := s.reads[c]; !ok {
				c = c.Origin()
			}
			if rs, ok := s.reads[c]; ok {
				for f := range rs {
					if !s.reads[e.from][f] {
						s.reads[e.from][f] = true
						changed = true
					}
				}
				if s.readsHeap[c] && !s.readsHeap[e.from] {
					s.readsHeap[e.from], changed = true, true
				}
			}
		}
	}
	// transitive closure
	inModule := func(fn *types.Func) bool { _, ok := s.Writes[fn]; return ok }
	for changed := true; changed; {
		changed = false
		for _, e := range edges {
			w := s.Writes[e.from]
			switch {
			case e.unknown:
				if !w.All {
					w.All, changed = true, true
				}
			case e.fieldV != nil:
				if s.funcValsUnknown[e.fieldV] || s.stored[e.fieldV] || len(s.funcVals[e.fieldV]) == 0 {
					if !w.All {
						w.All, changed = true, true
					}
					continue
				}
				for _, t := range s.funcVals[e.fieldV] {
					if inModule(t) && w.merge(s.Writes[t]) {
						changed = true
					}
				}
			case e.iface:
				// module interface method: union over module implementations; foreign interface (error, io.Writer...):
				// implementations in the module with that method name are included conservatively.
				for fn2, w2 := range s.Writes {
					if fn2.Name() == e.callee.Name() && fn2.Type().(*types.Signature).Recv() != nil {
						if w.merge(w2) {
							changed = true
						}
					}
				}
			default:
				if inModule(e.callee) {
					if w.merge(s.Writes[e.callee]) {
						changed = true
					}
				} else if origin := e.callee.Origin(); origin != e.callee && inModule(origin) {
					if w.merge(s.Writes[origin]) {
						changed = true
					}
				}
				// non-module callee: assumed not to write module-typed fields (see DESIGN: trusted base)
			}
		}
	}
	return s
}

// IsFrozen reports whether a struct field is never stored to outside composite literals and never has its address taken.
func (s *Summaries) IsFrozen(f *types.Var) bool {
	return !s.stored[f] && !s.addrTaken[f]
}

// CalleesOfField returns the named functions a frozen func-typed field can hold, or nil if unknown.
func (s *Summaries) CalleesOfField(f *types.Var) []*types.Func {
	if s.funcValsUnknown[f] || s.stored[f] || s.addrTaken[f] {
		return nil
	}
	return s.funcVals[f]
}

// ReadsOf lists the struct fields a module function reads (transitively through static module calls).
func (s *Summaries) ReadsOf(fn *types.Func) []*types.Var {
	rs, ok := s.reads[fn]
	if !ok {
		rs = s.reads[fn.Origin()]
	}
	var out []*types.Var
	for f := range rs {
		out = append(out, f)
	}
	return out
}

// ReadsHeap reports whether fn reads through indexes/dereferences or calls unknown code.
func (s *Summaries) ReadsHeap(fn *types.Func) bool {
	if _, ok := s.reads[fn]; ok {
		return s.readsHeap[fn]
	}
	if _, ok := s.reads[fn.Origin()]; ok {
		return s.readsHeap[fn.Origin()]
	}
	return false // non-module function: operates on its arguments only (trusted)
}

// localClosure: v is a local variable of fd whose only assignment is a function literal.
func localClosure(info *types.Info, fd *ast.FuncDecl, v *types.Var) bool {
	if v.Pos() < fd.Pos() || v.Pos() >= fd.End() {
		return false
	}
	n, lit := 0, false
	ast.Inspect(fd.Body, func(x ast.Node) bool {
		switch a := x.(type) {
		case *ast.AssignStmt:
			for i, l := range a.Lhs {
				if objOf(info, l) == types.Object(v) {
					n++
					if len(a.Lhs) == len(a.Rhs) {
						_, lit = ast.Unparen(a.Rhs[i]).(*ast.FuncLit)
					}
				}
			}
		case *ast.ValueSpec:
			for i, id := range a.Names {
				if info.Defs[id] == types.Object(v) {
					n++
					if len(a.Values) == len(a.Names) {
						_, lit = ast.Unparen(a.Values[i]).(*ast.FuncLit)
					}
				}
			}
		}
		return true
	})
	return n == 1 && lit
}

// paramIndex: the position of v among fd's parameters, or -1.
func paramIndex(info *types.Info, fd *ast.FuncDecl, v *types.Var) int {
	i := 0
	for _, f := range fd.Type.Params.List {
		for _, n := range f.Names {
			if info.Defs[n] == types.Object(v) {
				return i
			}
			i++
		}
		if len(f.Names) == 0 {
			i++
		}
	}
	return -1
}
