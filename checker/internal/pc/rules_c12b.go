package pc

import (
	"fmt"
	"go/ast"
	"go/token"
	"go/types"
	"strings"

	"golang.org/x/tools/go/packages"
)

// ---- C12/panic: explicit panics are dead, every index/slice expression is discharged.

// reviewedIndex: partial operations whose safety rests on an invariant that the guard idioms below cannot
// express; one row per (function, expression), each with its reason. Anything not matched by an idiom or a row fails.
var reviewedIndex = map[string]string{
	"parser.(*parser).split|p.tokens[start:]":                                  "start is p.pos at entry; the cursor only exceeds len(tokens) after next() reported the end, and split is only called after a successful next() of the caller (C12/cursor: the cursor never moves before a saved position)",
	"parser.(*parser).split|p.tokens[start:p.pos]":                             "start <= p.pos: the cursor only moves forward between the save and the slice (next/prev pairs, C12/cursor)",
	"parser.(*parser).splitSemi|p.tokens[start:]":                              "as split",
	"parser.(*parser).splitSemi|p.tokens[start:p.pos]":                         "as split",
	"parser.(*scanner).quotedIdent|s.s[start + len(\"`\"):s.pos - len(\"`\")]": "both backticks were read by this function before the slice is taken: start+1 <= s.pos-1",
	"parser.(*scanner).numberOrDot|s.s[hexDigitStart:s.pos]":                   "hexDigitStart is a saved scanner position and the scanner only moved forward since (C09/backup)",
	"parser.(*scanner).string|s.s[valueStart:s.last]":                          "valueStart is the position after the opening quote; s.last is the start of the rune just read, which lies at or after valueStart",
	"parser.(*scanner).next|s.s[s.pos:]":                                       "guarded by `s.pos >= len(s.s)` returning early",
	"parser.linecol|source[:pos]":                                              "pos is span.Start of a parseError, whose spans are token spans or end of input (C10/errors)",
	"pql.linecol|source[:pos]":                                                 "pos is span.Start of a compileError, used only after span.IsValid() (C10/errors)",
	"parser.spanString|s[span.Start:span.End]":                                 "guarded by span.IsValid(); spans recorded by the parser lie inside the source (C10/recorded, C09/spans)",
	"pql.(*subquery).write|ctx.source[span.Start:span.End]":                    "span is Span() of a parsed expression (C10/slices): token-derived, inside the source",
	"pql.(*subquery).write|id.Parts[0]":                                        "every construction site of QualifiedIdent has at least one part (checked: C12/nonempty)",
	"pql.(*CompileOptions).Compile|subqueries[:len(subqueries) - 1]":           "splitQueries returns a non-empty slice on success (its final `len(dst) == dstStart` guard appends one; checked: C12/post)",
	"pql.(*CompileOptions).Compile|subqueries[len(subqueries) - 1]":            "as above",
	"pql.splitQueries|dst[len(dst) - 1]":                                       "dst is the result of the recursive splitQueries call, which appends at least one subquery (C12/post)",
	"pql.splitQueries|dst[leftSubquery]":                                       "guarded by leftSubquery >= dstStart >= 0, and leftSubquery = len(dst)-1 of a dst that only grew",
	"pql.chainSubquery|dst[len(dst) - 1]":                                      "guarded by len(dst) > dstStart and dstStart = len(dst) of the caller's entry >= 0",
	"parser.SplitStatements|source[start:tok.Span.Start]":                      "start is 0 or the End of an earlier semicolon token, tok is a later token of Scan(source) (C15/provenance); token spans lie inside the source in order (C09/spans)",
	"parser.SplitStatements|source[start:]":                                    "start is 0 or the End of a token of Scan(source) (C15/provenance, C09/spans)",
	"parser.firstParse|productions[:len(productions) - 1]":                     "variadic: every call site passes at least one production (checked: C12/variadic)",
	"parser.firstParse|productions[len(productions) - 1]":                      "as above",
}

type panicClient struct {
	BaseClient
	p    *Program
	pkg  *packages.Package
	fn   string
	seen map[string]int
	used map[string]bool
}

func (c *panicClient) key(x ast.Expr) string { return c.fn + "|" + exprStr(x) }

func (c *panicClient) PreCall(e *Engine, st *State, call *ast.CallExpr, _ *types.Func) *State {
	if !IsBuiltinCall(e.Info, call, "panic") {
		return nil
	}
	// reachable explicit panic: dead only if proven by a table rule elsewhere
	key := fmt.Sprintf("%s explicit panic", c.fn)
	dead, why := c.p.explicitPanicDead(c.pkg, e.Func, call)
	e.Site("C12/panic", key, call, dead, why)
	if !dead {
		e.Site("C12/panic", key, call, false, "an explicit panic is reachable: "+why)
	}
	return nil
}

// PreAssign: a store into a map panics when the map is nil.
func (c *panicClient) PreAssign(e *Engine, st *State, lhs, rhs []ast.Expr, _ ast.Stmt) *State {
	for _, l := range lhs {
		ix, ok := ast.Unparen(l).(*ast.IndexExpr)
		if !ok {
			continue
		}
		if _, isMap := e.Info.TypeOf(ix.X).Underlying().(*types.Map); !isMap {
			continue
		}
		key := fmt.Sprintf("%s map store %s", c.fn, exprStr(ix))
		ok2 := e.NonNil(st, ix.X)
		e.Site("C12/panic", key, ix, ok2, "the map is known to be allocated (make / literal) on every path")
		if !ok2 {
			e.Site("C12/panic", key, ix, false, "a store into a map that is not known to be non-nil on this path: assignment to an entry of a nil map panics")
		}
	}
	return nil
}

func (c *panicClient) Visit(e *Engine, st *State, n ast.Node) *State {
	info := e.Info
	switch x := n.(type) {
	case *ast.TypeAssertExpr:
		// single-value assertion panics on mismatch; comma-ok forms and type switches do not reach here as such
		if x.Type == nil {
			return nil
		}
		if as, ok := e.P.Parent(x).(*ast.AssignStmt); ok && len(as.Lhs) == 2 {
			return nil
		}
		if vs, ok := e.P.Parent(x).(*ast.ValueSpec); ok && len(vs.Names) == 2 {
			return nil
		}
		e.Site("C12/panic", c.fn+" type assertion "+exprStr(x), x, false, "single-value type assertion panics when the dynamic type differs")
		return nil
	case *ast.BinaryExpr:
		if x.Op == token.QUO || x.Op == token.REM {
			if t, ok := info.TypeOf(x).Underlying().(*types.Basic); ok && t.Info()&types.IsInteger != 0 {
				if v, ok := constInt(info, x.Y); ok && v != 0 {
					e.Site("C12/panic", c.fn+" division "+exprStr(x), x, true, "constant non-zero divisor")
				} else {
					e.Site("C12/panic", c.fn+" division "+exprStr(x), x, false, "integer division by a value not known to be non-zero")
				}
			}
		}
		return nil
	case *ast.IndexExpr:
		t := info.TypeOf(x.X)
		if t == nil {
			return nil
		}
		if _, isMap := t.Underlying().(*types.Map); isMap {
			return nil
		}
		ok, how := c.dischargeIndex(e, st, x.X, x.Index)
		c.report(e, x, ok, how)
	case *ast.SliceExpr:
		ok, how := c.dischargeSlice(e, st, x)
		c.report(e, x, ok, how)
	}
	return nil
}

func (c *panicClient) report(e *Engine, x ast.Expr, ok bool, how string) {
	k := c.key(x)
	if !ok {
		if why, rev := reviewedIndex[k]; rev {
			c.used[k] = true
			e.Site("C12/panic", strings.Replace(k, "|", " ", 1), x, true, "reviewed: "+why)
			return
		}
		e.Site("C12/panic", strings.Replace(k, "|", " ", 1), x, false, "no guard idiom proves this index/slice expression in range on every path and it is not a reviewed row: "+how)
		return
	}
	e.Site("C12/panic", strings.Replace(k, "|", " ", 1), x, true, how)
}

// lenAtLeast: len(base) >= n known from facts (length facts, or a string known != "").
func (c *panicClient) lenAtLeast(e *Engine, st *State, base ast.Expr, n int64) bool {
	if e.LenAtLeast(st, base, n) {
		return true
	}
	if n == 1 {
		if f := e.FactOf(st, base); f != nil && hasStr(f.Ne, `""`) {
			return true
		}
	}
	return false
}

func (c *panicClient) dischargeIndex(e *Engine, st *State, base, idx ast.Expr) (bool, string) {
	info := e.Info
	if arr, ok := info.TypeOf(base).Underlying().(*types.Array); ok {
		if v, ok := constInt(info, idx); ok && v >= 0 && v < arr.Len() {
			return true, "constant index into an array"
		}
	}
	if v, ok := constInt(info, idx); ok {
		if v >= 0 && c.lenAtLeast(e, st, base, v+1) {
			return true, fmt.Sprintf("I-const: len(%s) >= %d is known on this path", exprStr(base), v+1)
		}
		return false, fmt.Sprintf("len(%s) >= %d is not known here", exprStr(base), v+1)
	}
	// e[len(e)-1]
	if b, ok := ast.Unparen(idx).(*ast.BinaryExpr); ok && b.Op == token.SUB {
		if call, ok := ast.Unparen(b.X).(*ast.CallExpr); ok && IsBuiltinCall(info, call, "len") && sameExpr(info, call.Args[0], base) {
			if one, ok := constInt(info, b.Y); ok && one >= 1 && c.lenAtLeast(e, st, base, one) {
				return true, "I-last: index len-k with len >= k known"
			}
			return false, "non-emptiness of " + exprStr(base) + " is not known here"
		}
	}
	// e[i] inside a counted / range loop over e
	if o := objOf(info, idx); o != nil {
		found := false
		e.P.ancestors(idx, e.Func, func(anc, _ ast.Node) bool {
			switch l := anc.(type) {
			case *ast.ForStmt:
				if isCountedLoopOver(info, l, o, base) && !writesTo(info, l.Body, o) && !resizes(info, l.Body, base) {
					found = true
				}
			case *ast.RangeStmt:
				if l.Key != nil && objOf(info, l.Key) == o && sameExpr(info, l.X, base) && !resizes(info, l.Body, base) {
					found = true
				}
			}
			return !found
		})
		if found {
			return true, "I-loop: index variable of a loop over all indices of the same slice"
		}
		// relational fact i < len(e) with i >= 0 known
		ki, kb := e.CanonSt(st, idx), e.CanonSt(st, base)
		if ki.OK && kb.OK {
			if f := st.Get("(" + ki.Key + " < len(" + kb.Key + "))"); f != nil && f.HasEq && f.Eq == "true" {
				if fi := st.Get(ki.Key); fi != nil && fi.Lo != nil && *fi.Lo >= 0 {
					return true, "I-rel: 0 <= i < len known"
				}
			}
		}
	}
	// e[p.pos] with p.pos < len(e)
	ki, kb := e.CanonSt(st, idx), e.CanonSt(st, base)
	if ki.OK && kb.OK {
		if f := st.Get("(" + ki.Key + " < len(" + kb.Key + "))"); f != nil && f.HasEq && f.Eq == "true" {
			if sel, ok := ast.Unparen(idx).(*ast.SelectorExpr); ok && sel.Sel.Name == "pos" {
				return true, "I-pos: cursor position known to be below the length (cursor positions are never negative)"
			}
		}
	}
	return false, "no matching guard fact"
}

func writesTo(info *types.Info, body ast.Node, o types.Object) bool {
	w := false
	ast.Inspect(body, func(n ast.Node) bool {
		switch s := n.(type) {
		case *ast.AssignStmt:
			for _, l := range s.Lhs {
				if objOf(info, l) == o {
					w = true
				}
			}
		case *ast.IncDecStmt:
			if objOf(info, s.X) == o {
				w = true
			}
		}
		return true
	})
	return w
}

func resizes(info *types.Info, body ast.Node, base ast.Expr) bool {
	w := false
	ast.Inspect(body, func(n ast.Node) bool {
		if s, ok := n.(*ast.AssignStmt); ok {
			for _, l := range s.Lhs {
				if sameExpr(info, l, base) {
					w = true
				}
			}
		}
		return true
	})
	return w
}

func (c *panicClient) dischargeSlice(e *Engine, st *State, x *ast.SliceExpr) (bool, string) {
	info := e.Info
	if x.Max != nil {
		return false, "3-index slice"
	}
	// e[k:] with len >= k
	if x.High == nil && x.Low != nil {
		if v, ok := constInt(info, x.Low); ok && v >= 0 {
			if v == 0 || c.lenAtLeast(e, st, x.X, v) {
				return true, fmt.Sprintf("I-const: len >= %d known", v)
			}
			return false, fmt.Sprintf("len(%s) >= %d is not known here", exprStr(x.X), v)
		}
	}
	// e[:len(e)-k]
	if x.Low == nil && x.High != nil {
		if b, ok := ast.Unparen(x.High).(*ast.BinaryExpr); ok && b.Op == token.SUB {
			if call, ok := ast.Unparen(b.X).(*ast.CallExpr); ok && IsBuiltinCall(info, call, "len") && sameExpr(info, call.Args[0], x.X) {
				if k, ok := constInt(info, b.Y); ok && k >= 0 && c.lenAtLeast(e, st, x.X, k) {
					return true, "I-last: drops the last k elements of a slice with len >= k"
				}
				return false, "non-emptiness of " + exprStr(x.X) + " is not known here"
			}
		}
	}
	if x.Low == nil && x.High == nil {
		return true, "full slice"
	}
	return false, "bounds are not constants or len-relative"
}

// explicitPanicDead: (a) Walk's default branch is dead when C11/handled holds; (b) an inner switch's panicking
// default is dead when its cases cover the enclosing case list on the same tag.
func (p *Program) explicitPanicDead(pkg *packages.Package, fd *ast.FuncDecl, call *ast.CallExpr) (bool, string) {
	info := pkg.TypesInfo
	if pkg == p.Parser && fd.Name.Name == "Walk" {
		// re-derive C11/handled
		m := p.walkModel()
		need := map[string]bool{}
		for _, iface := range []string{"Statement", "Expr"} {
			for _, d := range p.Implementers(p.Iface(p.Parser, iface)) {
				need[TypeStr(d)] = true
			}
		}
		for _, cc := range m.sw.Clauses {
			for _, e := range m.pushes(info, cc) {
				for _, d := range p.dynTypes(info.TypeOf(e)) {
					need[TypeStr(d)] = true
				}
			}
		}
		for n := range need {
			if _, ok := m.caseOf[n]; !ok {
				return false, "parser.Walk can meet a " + n + ", which has no case: the default branch panics"
			}
		}
		// and optional fields are nil-guarded (a nil interface would reach the default branch too): C11/nil
		return true, "default branch of Walk: every dynamic type that can reach the worklist has a case (C11/handled; nil children are excluded by C11/nil)"
	}
	// inner switch default
	var inner *ast.CaseClause
	p.ancestors(call, fd, func(anc, _ ast.Node) bool {
		if cc, ok := anc.(*ast.CaseClause); ok && inner == nil {
			inner = cc
		}
		return inner == nil
	})
	if inner != nil && inner.List == nil {
		sw, _ := p.Parent(p.Parent(inner)).(*ast.SwitchStmt)
		var outer *ast.CaseClause
		if sw != nil {
			p.ancestors(sw, fd, func(anc, _ ast.Node) bool {
				if cc, ok := anc.(*ast.CaseClause); ok && outer == nil {
					outer = cc
				}
				return outer == nil
			})
		}
		if sw != nil && outer != nil {
			osw, _ := p.Parent(p.Parent(outer)).(*ast.SwitchStmt)
			if osw != nil && osw.Tag != nil && sw.Tag != nil && sameExpr(info, osw.Tag, sw.Tag) {
				have := map[string]bool{}
				for _, c := range sw.Body.List {
					for _, e := range c.(*ast.CaseClause).List {
						have[constName(info, e)] = true
					}
				}
				all := true
				for _, e := range outer.List {
					if !have[constName(info, e)] {
						all = false
					}
				}
				// the tag must not be reassigned between the two switches
				if all && !writesToExpr(info, outer, sw.Tag, sw.Pos()) {
					return true, "default of an inner switch whose cases repeat every value of the enclosing case on the same tag"
				}
			}
		}
	}
	return false, "no table argument shows this panic to be unreachable"
}

func writesToExpr(info *types.Info, scope ast.Node, target ast.Expr, before token.Pos) bool {
	w := false
	ast.Inspect(scope, func(n ast.Node) bool {
		if as, ok := n.(*ast.AssignStmt); ok && as.Pos() < before {
			for _, l := range as.Lhs {
				if sameExpr(info, l, target) {
					w = true
				}
				if sel, ok := ast.Unparen(target).(*ast.SelectorExpr); ok && sameExpr(info, l, sel.X) {
					w = true
				}
			}
		}
		return true
	})
	return w
}

func ruleC12Panic(p *Program, r *Run) {
	used := map[string]bool{}
	for _, pkg := range p.Lib() {
		for _, fd := range AllFuncs(pkg) {
			fn := FuncName(pkg, fd)
			if p.IsGenerated(pkg, fd.Pos()) {
				r.Pass("C12/panic", fn+" (generated by stringer)", p.Pos(fd.Pos()), "generated code, exempt as a unit: its table lookups are guarded by the range checks stringer emits and compile-time assertions pin the constant values")
				continue
			}
			has := false
			ast.Inspect(fd.Body, func(n ast.Node) bool {
				switch x := n.(type) {
				case *ast.IndexExpr, *ast.SliceExpr:
					_ = x
					has = true
				case *ast.CallExpr:
					if IsBuiltinCall(pkg.TypesInfo, x, "panic") {
						has = true
					}
				case *ast.TypeAssertExpr:
					has = true
				}
				return true
			})
			if !has {
				continue
			}
			r.Saw(fn)
			c := &panicClient{p: p, pkg: pkg, fn: fn, used: used}
			e := NewEngine(p, pkg, fd, c)
			e.Run(nil)
			for _, m := range e.Errs {
				r.Fail("C12/panic", fn+" engine", "-", m)
			}
			e.FlushSites(r)
		}
	}
	for k := range reviewedIndex {
		if !used[k] {
			r.Note("reviewed row not used on this tree (construct gone or now discharged by an idiom): %s", k)
		}
	}
	r.Floor("C12/panic", 55)
	ruleC12Support(p, r)
}

// ruleC12Support checks the three invariants the reviewed rows lean on.
func ruleC12Support(p *Program, r *Run) {
	// C12/nonempty: every QualifiedIdent construction has >= 1 part; Parts only grows.
	for _, pkg := range p.Lib() {
		info := pkg.TypesInfo
		for _, fd := range AllFuncs(pkg) {
			fn := FuncName(pkg, fd)
			n := 0
			ast.Inspect(fd.Body, func(x ast.Node) bool {
				switch v := x.(type) {
				case *ast.CompositeLit:
					if TypeStr(info.TypeOf(v)) != "parser.QualifiedIdent" {
						return true
					}
					n++
					parts := litField(info, v, "Parts")
					ok := false
					if pl, isLit := ast.Unparen(orIdent(parts)).(*ast.CompositeLit); isLit && len(pl.Elts) >= 1 {
						ok = true
					}
					r.Check(ok, "C12/nonempty", fmt.Sprintf("%s QualifiedIdent literal #%d", fn, n), p.Pos(v.Pos()), "constructed with at least one part", "a QualifiedIdent can be constructed without parts: Parts[0] panics in the compiler")
				case *ast.AssignStmt:
					for i, l := range v.Lhs {
						f := selField(info, l)
						if f == nil || f.Name() != "Parts" || i >= len(v.Rhs) {
							continue
						}
						call, isCall := ast.Unparen(v.Rhs[i]).(*ast.CallExpr)
						ok := isCall && IsBuiltinCall(info, call, "append") && sameExpr(info, call.Args[0], l)
						r.Check(ok, "C12/nonempty", fn+" store to QualifiedIdent.Parts", p.Pos(v.Pos()), "only ever appended to", "QualifiedIdent.Parts is overwritten (not appended to): it could become empty")
					}
				}
				return true
			})
		}
	}
	r.Floor("C12/nonempty", 4)
	// C12/post: splitQueries returns dst with at least one more element than it was given
	sq := p.MustFunc(p.PQL, "splitQueries")
	info := p.PQL.TypesInfo
	okPost := false
	var lastIf *ast.IfStmt
	for _, s := range sq.Body.List {
		if ifs, ok := s.(*ast.IfStmt); ok {
			lastIf = ifs
		}
	}
	if lastIf != nil {
		if b, ok := ast.Unparen(lastIf.Cond).(*ast.BinaryExpr); ok && b.Op == token.EQL {
			if call, ok := ast.Unparen(b.X).(*ast.CallExpr); ok && IsBuiltinCall(info, call, "len") {
				// body appends to the same slice; the statement after is `return dst, nil`
				appended := false
				ast.Inspect(lastIf.Body, func(n ast.Node) bool {
					if as, ok := n.(*ast.AssignStmt); ok && len(as.Rhs) == 1 {
						if c2, ok := as.Rhs[0].(*ast.CallExpr); ok && IsBuiltinCall(info, c2, "append") && sameExpr(info, c2.Args[0], call.Args[0]) && sameExpr(info, as.Lhs[0], call.Args[0]) {
							appended = true
						}
					}
					return true
				})
				// the compared value is len(dst) saved at entry
				saved := false
				if o := objOf(info, b.Y); o != nil {
					if as, ok := sq.Body.List[0].(*ast.AssignStmt); ok && objOf(info, as.Lhs[0]) == o {
						if c0, ok := as.Rhs[0].(*ast.CallExpr); ok && IsBuiltinCall(info, c0, "len") && sameExpr(info, c0.Args[0], call.Args[0]) {
							saved = true
						}
					}
				}
				if ret, ok := sq.Body.List[len(sq.Body.List)-1].(*ast.ReturnStmt); ok && len(ret.Results) == 2 && sameExpr(info, ret.Results[0], call.Args[0]) && appended && saved {
					okPost = true
				}
			}
		}
	}
	// dst is only ever appended to or replaced by the recursive call's result
	onlyGrows := true
	ast.Inspect(sq.Body, func(n ast.Node) bool {
		as, ok := n.(*ast.AssignStmt)
		if !ok {
			return true
		}
		for i, l := range as.Lhs {
			if o := objOf(info, l); o == nil || o != info.Defs[sq.Type.Params.List[0].Names[0]] {
				continue
			}
			rhs := as.Rhs[0]
			if len(as.Rhs) == len(as.Lhs) {
				rhs = as.Rhs[i]
			}
			call, isCall := ast.Unparen(rhs).(*ast.CallExpr)
			if !isCall {
				onlyGrows = false
				continue
			}
			if IsBuiltinCall(info, call, "append") && sameExpr(info, call.Args[0], l) {
				continue
			}
			if Callee(info, call) == FuncObj(p.PQL, sq) && sameExpr(info, call.Args[0], l) {
				continue
			}
			onlyGrows = false
		}
		return true
	})
	r.Check(okPost && onlyGrows, "C12/post", "pql.splitQueries returns at least one subquery more than it was given", p.Pos(sq.Pos()), "dst only grows and the final `len(dst) == dstStart` guard appends one before `return dst, nil`", "splitQueries can return without having appended a subquery: callers index its last element")
	// C12/variadic: firstParse is always called with >= 1 production
	fp := p.MustFunc(p.Parser, "firstParse")
	fpo := FuncObj(p.Parser, fp)
	calls := 0
	okVar := true
	for _, fd := range AllFuncs(p.Parser) {
		ast.Inspect(fd.Body, func(n ast.Node) bool {
			if call, ok := n.(*ast.CallExpr); ok {
				if f := Callee(p.Parser.TypesInfo, call); f != nil && (f == fpo || f.Origin() == fpo) {
					calls++
					if len(call.Args) < 1 || call.Ellipsis.IsValid() {
						okVar = false
					}
				}
			}
			return true
		})
	}
	r.Check(okVar && calls > 0, "C12/variadic", "parser.firstParse call sites pass at least one production", p.Pos(fp.Pos()), fmt.Sprintf("%d call sites, each with explicit arguments", calls), "firstParse can be called without productions: productions[len-1] panics")
}
