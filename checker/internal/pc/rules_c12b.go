package pc

import (
	"fmt"
	"go/ast"
	"go/token"
	"go/types"
	"os"
	"sort"
	"strings"

	"golang.org/x/tools/go/packages"
)

// ---- C12/panic: explicit panics are dead, every index/slice expression is discharged.

// reviewedIndex: partial operations whose safety rests on an invariant that the guard idioms below cannot
// express; one row per (function, expression), each with its reason. Anything not matched by an idiom or a row fails.
var reviewedIndex = map[string]string{
	"parser.(*parser).split|$*parser.tokens[$int:]":                          "start is p.pos at entry; the cursor only exceeds len(tokens) after next() reported the end, and split is only called after a successful next() of the caller (C12/cursor: the cursor never moves before a saved position)",
	"parser.(*parser).split|$*parser.tokens[$int:$*parser.pos]":              "start <= p.pos: the cursor only moves forward between the save and the slice (next/prev pairs, C12/cursor)",
	"parser.(*parser).splitSemi|$*parser.tokens[$int:]":                      "as split",
	"parser.(*parser).splitSemi|$*parser.tokens[$int:$*parser.pos]":          "as split",
	"parser.(*scanner).quotedIdent|$*scanner.s[$int + 1:$*scanner.pos - 1]":  "both backticks were read by this function before the slice is taken: start+1 <= s.pos-1",
	"parser.(*scanner).numberOrDot|$*scanner.s[$int:$*scanner.pos]":          "hexDigitStart is a saved scanner position and the scanner only moved forward since (C09/backup)",
	"parser.(*scanner).string|$*scanner.s[$int:$*scanner.last]":              "valueStart is the position after the opening quote; s.last is the start of the rune just read, which lies at or after valueStart",
	"parser.(*scanner).next|$*scanner.s[$*scanner.pos:]":                     "guarded by `s.pos >= len(s.s)` returning early",
	"parser.linecol|$string[:$int]":                                          "pos is span.Start of a parseError, whose spans are token spans or end of input (C10/errors)",
	"pql.linecol|$string[:$int]":                                             "pos is span.Start of a compileError, used only after span.IsValid() (C10/errors)",
	"parser.spanString|$string[$Span.Start:$Span.End]":                       "guarded by span.IsValid(); spans recorded by the parser lie inside the source (C10/recorded, C09/spans)",
	"pql.(*subquery).write|$*exprContext.source[$Span.Start:$Span.End]":      "span is Span() of a parsed expression (C10/slices): token-derived, inside the source",
	"pql.(*subquery).write|$*QualifiedIdent.Parts[0]":                        "every construction site of QualifiedIdent has at least one part (checked: C12/nonempty)",
	"pql.(*CompileOptions).Compile|$[]*subquery[:len($[]*subquery) - 1]":     "splitQueries returns a non-empty slice on success (its final `len(dst) == dstStart` guard appends one; checked: C12/post)",
	"pql.(*CompileOptions).Compile|$[]*subquery[len($[]*subquery) - 1]":      "as above",
	"pql.splitQueries|$[]*subquery[len($[]*subquery) - 1]":                   "dst is the result of the recursive splitQueries call, which appends at least one subquery (C12/post)",
	"pql.splitQueries|$[]*subquery[$int]":                                    "guarded by leftSubquery >= dstStart >= 0, and leftSubquery = len(dst)-1 of a dst that only grew",
	"pql.chainSubquery|$[]*subquery[len($[]*subquery) - 1]":                  "guarded by len(dst) > dstStart and dstStart = len(dst) of the caller's entry >= 0",
	"parser.SplitStatements|$string[$int:$Token.Span.Start]":                 "start is 0 or the End of an earlier semicolon token, tok is a later token of Scan(source) (C15/provenance); token spans lie inside the source in order (C09/spans)",
	"parser.SplitStatements|$string[$int:]":                                  "start is 0 or the End of a token of Scan(source) (C15/provenance, C09/spans)",
	"parser.firstParse|$[]func() (T, error)[:len($[]func() (T, error)) - 1]": "variadic: every call site passes at least one production (checked: C12/variadic)",
	"parser.firstParse|$[]func() (T, error)[len($[]func() (T, error)) - 1]":  "as above",
}

type panicClient struct {
	BaseClient
	p       *Program
	pkg     *packages.Package
	fn      string
	seen    map[string]int
	used    map[string]bool
	inline  map[*types.Func]bool // helpers interpreted in place (second pass: obligations decided in their callers' contexts)
	entered map[*ast.FuncDecl]int
	failed  map[*ast.FuncDecl]bool
}

// Inline: in the second pass, helpers whose own obligations could not be decided are interpreted at their call sites.
func (c *panicClient) Inline(e *Engine, call *ast.CallExpr, callee *types.Func, decl *ast.FuncDecl) bool {
	if c.inline[callee] && c.entered != nil {
		c.entered[decl]++
	}
	return c.inline[callee]
}

// key identifies an index/slice expression for the reviewed table: root function and the expression with
// names looked through, constants by value and locals by type (stable under renaming and temporaries).
func (c *panicClient) key(e *Engine, x ast.Expr) string { return c.fn + "|" + e.NormExpr(x) }

// where renders the function (and in-place call context) an obligation sits in.
func (c *panicClient) where(e *Engine) string {
	if k := e.FrameKey(); k != "" {
		return c.fn + " > " + k
	}
	return c.fn
}

func (c *panicClient) PreCall(e *Engine, st *State, call *ast.CallExpr, _ *types.Func) *State {
	if !IsBuiltinCall(e.Info, call, "panic") {
		return nil
	}
	// reachable explicit panic: dead only if proven by a table rule elsewhere
	key := fmt.Sprintf("%s explicit panic", c.where(e))
	dead, why := c.p.explicitPanicDead(c.p.PkgOf(call.Pos()), e.CurFunc(), call)
	e.Site("C12/panic", key, call, dead, why)
	if !dead {
		if c.failed != nil {
			c.failed[e.CurFunc()] = true
		}
		e.Site("C12/panic", key, call, false, "an explicit panic is reachable: "+why)
	}
	return nil
}

// PreAssign: a store into a map panics when the map is nil.
func (c *panicClient) PreAssign(e *Engine, st *State, lhs, rhs []ast.Expr, _ ast.Stmt) *State {
	for _, l := range lhs {
		ix, ok := ast.Unparen(l).(*ast.IndexExpr)
		if !ok {
			continue
		}
		if _, isMap := e.Info.TypeOf(ix.X).Underlying().(*types.Map); !isMap {
			continue
		}
		key := fmt.Sprintf("%s map store %s", c.where(e), exprStr(ix))
		ok2 := e.NonNil(st, ix.X)
		e.Site("C12/panic", key, ix, ok2, "the map is known to be allocated (make / literal) on every path")
		if !ok2 {
			if c.failed != nil {
				c.failed[e.CurFunc()] = true // decided again where the helper is called (the map may be the caller's)
			}
			e.Site("C12/panic", key, ix, false, "a store into a map that is not known to be non-nil on this path: assignment to an entry of a nil map panics")
		}
	}
	return nil
}

func (c *panicClient) Visit(e *Engine, st *State, n ast.Node) *State {
	info := e.Info
	switch x := n.(type) {
	case *ast.TypeAssertExpr:
		// single-value assertion panics on mismatch; comma-ok forms and type switches do not reach here as such
		if x.Type == nil {
			return nil
		}
		if as, ok := e.P.Parent(x).(*ast.AssignStmt); ok && len(as.Lhs) == 2 {
			return nil
		}
		if vs, ok := e.P.Parent(x).(*ast.ValueSpec); ok && len(vs.Names) == 2 {
			return nil
		}
		e.Site("C12/panic", c.where(e)+" type assertion "+exprStr(x), x, false, "single-value type assertion panics when the dynamic type differs")
		return nil
	case *ast.BinaryExpr:
		if x.Op == token.QUO || x.Op == token.REM {
			if t, ok := info.TypeOf(x).Underlying().(*types.Basic); ok && t.Info()&types.IsInteger != 0 {
				if v, ok := constInt(info, x.Y); ok && v != 0 {
					e.Site("C12/panic", c.where(e)+" division "+exprStr(x), x, true, "constant non-zero divisor")
				} else {
					e.Site("C12/panic", c.where(e)+" division "+exprStr(x), x, false, "integer division by a value not known to be non-zero")
				}
			}
		}
		return nil
	case *ast.IndexExpr:
		t := info.TypeOf(x.X)
		if t == nil {
			return nil
		}
		if _, isMap := t.Underlying().(*types.Map); isMap {
			return nil
		}
		ok, how := c.dischargeIndex(e, st, x.X, e.ResolveDeep(x.Index))
		c.report(e, x, ok, how)
	case *ast.SliceExpr:
		lo, hi := x.Low, x.High
		// a bound that is only ever corrected to the other bound (`if hi < lo { hi = lo }`): the corrected slice is
		// the empty one at a position the uncorrected slice already needs to be valid
		if d := c.p.clampedBound(hi, lo); d != nil {
			hi = d
		} else if d := c.p.clampedBound(lo, hi); d != nil {
			lo = d
		}
		rx := &ast.SliceExpr{X: x.X, Lbrack: x.Lbrack, Low: e.ResolveDeep(lo), High: e.ResolveDeep(hi), Max: x.Max, Slice3: x.Slice3, Rbrack: x.Rbrack}
		// s[a:len(s)] is s[a:]
		if call, ok := ast.Unparen(rx.High).(*ast.CallExpr); ok && IsBuiltinCall(info, call, "len") && len(call.Args) == 1 {
			ka, kb := e.CanonSt(st, call.Args[0]), e.CanonSt(st, x.X)
			if ka.OK && kb.OK && ka.Key == kb.Key {
				rx.High = nil
			}
		}
		if tv, ok := info.Types[x]; ok {
			info.Types[rx] = tv
		}
		ok, how := c.dischargeSlice(e, st, rx)
		c.reportAs(e, x, rx, ok, how)
	}
	return nil
}

func (c *panicClient) report(e *Engine, x ast.Expr, ok bool, how string) {
	c.reportAs(e, x, x, ok, how)
}

// reportAs records the verdict for x; keyed (for the reviewed table) by its simplified form.
func (c *panicClient) reportAs(e *Engine, x, simplified ast.Expr, ok bool, how string) {
	site := c.where(e) + " " + exprStr(x)
	if !ok {
		k := c.key(e, simplified)
		if os.Getenv("PQLCHECK_DEBUG_KEYS") != "" {
			fmt.Fprintf(os.Stderr, "C12KEY\t%s|%s\t%s\n", c.fn, exprStr(x), k)
		}
		if why, rev := reviewedIndex[k]; rev {
			c.used[k] = true
			e.Site("C12/panic", site, x, true, "reviewed: "+why)
			return
		}
		// an element selected from a list where the reviewed row speaks of a value of the element type
		if k3 := c.fn + "|" + c.p.normExprElem(simplified); k3 != k {
			if why, rev := reviewedIndex[k3]; rev {
				// the selected element itself must be in range (decided as its own obligation)
				c.used[k3] = true
				e.Site("C12/panic", site, x, true, "reviewed: "+why)
				return
			}
		}
		// inside a helper interpreted in place: the row recorded for the helper itself
		if fr := e.Frames(); len(fr) > 0 {
			f := fr[len(fr)-1]
			if pkg := c.p.PkgOf(f.Decl.Pos()); pkg != nil && !c.p.isClosureDecl(f.Decl) {
				// (the simplified form may have the helper's receiver and parameters replaced by the caller's values:
				// the expression as written in the helper is tried as well)
				for _, form := range []ast.Expr{simplified, x} {
					k2 := FuncName(pkg, f.Decl) + "|" + c.p.normExpr(c.p.ResolveDeep(form))
					if why, rev := reviewedIndex[k2]; rev {
						c.used[k2] = true
						e.Site("C12/panic", site, x, true, "reviewed: "+why)
						return
					}
				}
			}
		}
		if c.failed != nil {
			c.failed[e.CurFunc()] = true
		}
		e.Site("C12/panic", site, x, false, "no guard idiom proves this index/slice expression in range on every path and it is not a reviewed row ("+k+"): "+how)
		return
	}
	e.Site("C12/panic", site, x, true, how)
}

// lenAtLeast: len(base) >= n known from facts (length facts, or a string known != "").
func (c *panicClient) lenAtLeast(e *Engine, st *State, base ast.Expr, n int64) bool {
	if e.LenAtLeast(st, base, n) {
		return true
	}
	if n == 1 {
		if f := e.FactOf(st, base); f != nil && hasStr(f.Ne, `""`) {
			return true
		}
	}
	return false
}

func (c *panicClient) dischargeIndex(e *Engine, st *State, base, idx ast.Expr) (bool, string) {
	info := e.Info
	if arr, ok := info.TypeOf(base).Underlying().(*types.Array); ok {
		if v, ok := constInt(info, idx); ok && v >= 0 && v < arr.Len() {
			return true, "constant index into an array"
		}
	}
	if v, ok := constInt(info, idx); ok {
		if v >= 0 && c.lenAtLeast(e, st, base, v+1) {
			return true, fmt.Sprintf("I-const: len(%s) >= %d is known on this path", exprStr(base), v+1)
		}
		return false, fmt.Sprintf("len(%s) >= %d is not known here", exprStr(base), v+1)
	}
	// s[i] with i := strings.Index*(s, sep) known >= 0 and s not assigned in between: the library returns -1 or the
	// index of an occurrence, which lies inside s
	{
		var call *ast.CallExpr
		switch v := ast.Unparen(idx).(type) {
		case *ast.Ident:
			call, _ = ast.Unparen(c.p.DefExpr(v)).(*ast.CallExpr)
		case *ast.CallExpr:
			call = v // the index variable already looked through
		}
		if bo := objOf(info, base); bo != nil && call != nil && c.indexOfBase(call, base) {
			if fct := e.FactOf(st, idx); fct != nil && fct.Lo != nil && *fct.Lo >= 0 && c.unassignedBetween(call, base, bo) {
				return true, "I-found: the index a search reported for this very string or slice, known not to be negative"
			}
		}
	}
	// i := len(e) - k held in a variable
	if ki, kb := e.CanonSt(st, idx), e.CanonSt(st, base); ki.OK && kb.OK {
		if sk, ok := e.SoftKey(st, idx); ok {
			ki.Key = sk
		}
		if strings.HasPrefix(ki.Key, "(len("+kb.Key+")-") && strings.HasSuffix(ki.Key, ")") {
			if k, ok := parseInt(ki.Key[len("(len("+kb.Key+")-") : len(ki.Key)-1]); ok && k >= 1 {
				if c.lenAtLeast(e, st, base, k) {
					return true, "I-last: index len-k (held in a variable) with len >= k known"
				}
			}
		}
	}
	// e[len(e)-1]
	if b, ok := ast.Unparen(idx).(*ast.BinaryExpr); ok && b.Op == token.SUB {
		if call, ok := ast.Unparen(b.X).(*ast.CallExpr); ok && IsBuiltinCall(info, call, "len") && sameExpr(info, call.Args[0], base) {
			if one, ok := constInt(info, b.Y); ok && one >= 1 && c.lenAtLeast(e, st, base, one) {
				return true, "I-last: index len-k with len >= k known"
			}
			return false, "non-emptiness of " + exprStr(base) + " is not known here"
		}
	}
	// e[i-k] inside a loop whose counter runs k ahead of the index (for i := len(e); i > 0; i-- { e[i-1] })
	if b, ok := ast.Unparen(idx).(*ast.BinaryExpr); ok && b.Op == token.SUB {
		if k, isC := constInt(info, b.Y); isC && k >= 1 {
			if o := objOf(info, b.X); o != nil {
				found := false
				e.P.ancestors(idx, e.CurFunc(), func(anc, _ ast.Node) bool {
					if l, isFor := anc.(*ast.ForStmt); isFor && isShiftedLoopOver(info, l, o, base, k) && !resizes(info, l.Body, base) {
						found = true
					}
					return !found
				})
				if found {
					return true, "I-loop: the loop counter runs a constant ahead of the index over all indices of the same slice"
				}
			}
		}
	}
	// e[i] inside a counted / range loop over e
	if o := objOf(info, idx); o != nil {
		found := false
		e.P.ancestors(idx, e.CurFunc(), func(anc, _ ast.Node) bool {
			switch l := anc.(type) {
			case *ast.ForStmt:
				if isCountedLoopOver(info, l, o, base) && !writesTo(info, l.Body, o) && !resizes(info, l.Body, base) {
					found = true
				}
			case *ast.RangeStmt:
				if l.Key != nil && objOf(info, l.Key) == o && sameExpr(info, l.X, base) && !resizes(info, l.Body, base) {
					found = true
				}
				// base := make([]T, len(X)); for i := range X { base[i] = ... }
				if l.Key != nil && objOf(info, l.Key) == o && !resizes(info, l.Body, base) && !resizes(info, l.Body, l.X) {
					if mk, ok := e.P.DefExpr(base).(*ast.CallExpr); ok && IsBuiltinCall(info, mk, "make") && len(mk.Args) >= 2 {
						if ln, ok := e.P.DefExpr(mk.Args[1]).(*ast.CallExpr); ok && IsBuiltinCall(info, ln, "len") && len(ln.Args) == 1 && sameExpr(info, ln.Args[0], l.X) {
							found = true
						}
					}
				}
			}
			return !found
		})
		if found {
			return true, "I-loop: index variable of a loop over all indices of the same slice"
		}
		// for i := <cursor>; i < len(e); i++: from the cursor of the parser or scanner (never negative: it starts at 0
		// and moves back only over what was read, C12/cursor) up to the end
		fromCursor := false
		e.P.ancestors(idx, e.CurFunc(), func(anc, _ ast.Node) bool {
			l, isFor := anc.(*ast.ForStmt)
			if !isFor {
				return true
			}
			init, okI := l.Init.(*ast.AssignStmt)
			cond, okC := l.Cond.(*ast.BinaryExpr)
			post, okP := l.Post.(*ast.IncDecStmt)
			if !okI || !okC || !okP || len(init.Lhs) != 1 || len(init.Rhs) != 1 || objOf(info, init.Lhs[0]) != o || objOf(info, cond.X) != o || cond.Op != token.LSS || objOf(info, post.X) != o || post.Tok != token.INC {
				return true
			}
			ln, isLen := ast.Unparen(cond.Y).(*ast.CallExpr)
			if !isLen || !IsBuiltinCall(info, ln, "len") || len(ln.Args) != 1 || !sameExpr(info, ln.Args[0], base) || writesTo(info, l.Body, o) || resizes(info, l.Body, base) {
				return true
			}
			if sel, isSel := ast.Unparen(init.Rhs[0]).(*ast.SelectorExpr); isSel {
				if f := selField(info, sel); f != nil && fldName(f) == "pos" {
					t := info.TypeOf(sel.X)
					if pt, isP := t.(*types.Pointer); isP {
						t = pt.Elem()
					}
					if n, isN := t.(*types.Named); isN && n.Obj().Pkg() != nil && n.Obj().Pkg().Path() == PathParser && (objName(n.Obj()) == "parser" || objName(n.Obj()) == "scanner") {
						fromCursor = true
					}
				}
			}
			if v, isC := constInt(info, init.Rhs[0]); isC && v >= 0 {
				fromCursor = true
			}
			return !fromCursor
		})
		if fromCursor {
			return true, "I-loop: index variable of a loop from the cursor (or a constant >= 0) up to the length of the same slice"
		}
		// relational fact i < len(e) with i >= 0 known
		ki, kb := e.CanonSt(st, idx), e.CanonSt(st, base)
		if ki.OK && kb.OK {
			if f := st.Get("(" + ki.Key + " < len(" + kb.Key + "))"); f != nil && f.HasEq && f.Eq == "true" {
				if fi := st.Get(ki.Key); fi != nil && fi.Lo != nil && *fi.Lo >= 0 {
					return true, "I-rel: 0 <= i < len known"
				}
			}
		}
	}
	// e[i+k] under the test `i+k < len(e)`, with i >= 0 (a loop index, or a known lower bound) and k a constant >= 0
	if b, ok := ast.Unparen(idx).(*ast.BinaryExpr); ok && b.Op == token.ADD {
		if kc, isC := constInt(info, b.Y); isC && kc >= 0 {
			ki, kb := e.CanonSt(st, idx), e.CanonSt(st, base)
			if ki.OK && kb.OK {
				if f := st.Get("(" + ki.Key + " < len(" + kb.Key + "))"); f != nil && f.HasEq && f.Eq == "true" {
					nonNeg := false
					if fi := e.FactOf(st, b.X); fi != nil && fi.Lo != nil && *fi.Lo >= 0 {
						nonNeg = true
					}
					if o := objOf(info, b.X); o != nil && !nonNeg {
						e.P.ancestors(idx, e.CurFunc(), func(anc, _ ast.Node) bool {
							switch l := anc.(type) {
							case *ast.ForStmt:
								// for i := 0; ...; i++ with no other write to i
								if as, ok := l.Init.(*ast.AssignStmt); ok && len(as.Lhs) == 1 && len(as.Rhs) == 1 && objOf(info, as.Lhs[0]) == o {
									if v0, isC := constInt(info, as.Rhs[0]); isC && v0 >= 0 {
										if inc, ok := l.Post.(*ast.IncDecStmt); ok && inc.Tok == token.INC && objOf(info, inc.X) == o && !writesTo(info, l.Body, o) {
											nonNeg = true
										}
									}
								}
							case *ast.RangeStmt:
								if l.Key != nil && objOf(info, l.Key) == o && !writesTo(info, l.Body, o) {
									nonNeg = true
								}
							}
							return !nonNeg
						})
					}
					if nonNeg {
						return true, "I-rel: 0 <= i+k < len known (i a non-negative index, k a constant)"
					}
				}
			}
		}
	}
	// e[p.pos] with p.pos < len(e)
	ki, kb := e.CanonSt(st, idx), e.CanonSt(st, base)
	if ki.OK && kb.OK {
		if f := st.Get("(" + ki.Key + " < len(" + kb.Key + "))"); f != nil && f.HasEq && f.Eq == "true" {
			if sel, ok := ast.Unparen(idx).(*ast.SelectorExpr); ok && selName(sel) == "pos" {
				return true, "I-pos: cursor position known to be below the length (cursor positions are never negative)"
			}
		}
	}
	return false, "no matching guard fact"
}

func writesTo(info *types.Info, body ast.Node, o types.Object) bool {
	w := false
	ast.Inspect(body, func(n ast.Node) bool {
		switch s := n.(type) {
		case *ast.AssignStmt:
			for _, l := range s.Lhs {
				if objOf(info, l) == o {
					w = true
				}
			}
		case *ast.IncDecStmt:
			if objOf(info, s.X) == o {
				w = true
			}
		}
		return true
	})
	return w
}

func resizes(info *types.Info, body ast.Node, base ast.Expr) bool {
	w := false
	ast.Inspect(body, func(n ast.Node) bool {
		if s, ok := n.(*ast.AssignStmt); ok {
			for _, l := range s.Lhs {
				if sameExpr(info, l, base) && !leavesAfter(s) {
					w = true
				}
			}
		}
		return true
	})
	return w
}

// leavesAfter: the statement is followed, in its own block, only by statements that end with a return (or a
// break): the loop around it does not go on with the changed slice.
func leavesAfter(s ast.Stmt) bool {
	if curProgram == nil {
		return false
	}
	blk, ok := curProgram.Parent(s).(*ast.BlockStmt)
	if !ok || len(blk.List) == 0 {
		return false
	}
	switch last := blk.List[len(blk.List)-1].(type) {
	case *ast.ReturnStmt:
		return true
	case *ast.BranchStmt:
		return last.Tok == token.BREAK
	}
	return false
}

func (c *panicClient) dischargeSlice(e *Engine, st *State, x *ast.SliceExpr) (bool, string) {
	info := e.Info
	if x.Max != nil {
		return false, "3-index slice"
	}
	// e[:0]
	if x.Low == nil && x.High != nil {
		if v, ok := constInt(info, x.High); ok && v == 0 {
			return true, "I-const: e[:0]"
		}
	}
	// e[:h] where the path knows h <= len(e) (a comparison of the two that was just made) and h is not negative
	if x.Low == nil && x.High != nil {
		hk, bk := e.CanonSt(st, x.High), e.CanonSt(st, x.X)
		if hk.OK && bk.OK {
			lenB := "len(" + bk.Key + ")"
			nonNeg := strings.HasPrefix(hk.Key, "len(")
			if f := st.Get(hk.Key); f != nil && f.Lo != nil && *f.Lo >= 0 {
				nonNeg = true
			}
			is := func(key, want string) bool {
				f := st.Get(key)
				return f != nil && f.HasEq && f.Eq == want
			}
			le := is("("+hk.Key+" < "+lenB+")", "true") || is("("+hk.Key+" <= "+lenB+")", "true") || is("("+lenB+" < "+hk.Key+")", "false")
			if nonNeg && le {
				return true, "I-rel: the upper bound was compared with the length of the slice on this path and is not negative"
			}
		}
	}
	// e[:max(f(e, ...), 0)] with f a search that reports a position inside e or a negative number: the bound lies in
	// [0, len(e)]; e[f(e, ...)+1:] and e[:f(e, ...)] where the result is known not to be negative
	if (x.Low == nil) != (x.High == nil) {
		if bo := objOf(info, x.X); bo != nil {
			b := ast.Unparen(x.High)
			if x.High == nil {
				b = ast.Unparen(x.Low)
			}
			asCall := func(y ast.Expr) *ast.CallExpr {
				switch v := ast.Unparen(y).(type) {
				case *ast.CallExpr:
					return v
				case *ast.Ident:
					cl, _ := ast.Unparen(c.p.DefExpr(v)).(*ast.CallExpr)
					return cl
				}
				return nil
			}
			if mx, ok := b.(*ast.CallExpr); ok && IsBuiltinCall(info, mx, "max") && len(mx.Args) == 2 && x.High != nil {
				for i := 0; i < 2; i++ {
					if z, isC := constInt(info, mx.Args[1-i]); isC && z == 0 {
						if cl := asCall(mx.Args[i]); cl != nil && c.indexOfBase(cl, x.X) && c.unassignedBetween(cl, x.X, bo) {
							return true, "I-found: max(position reported by a search in this very slice, 0) lies in [0, len]"
						}
					}
				}
			}
			k := int64(0)
			if bin, ok := b.(*ast.BinaryExpr); ok && bin.Op == token.ADD {
				if v, isC := constInt(info, bin.Y); isC && (v == 0 || v == 1) {
					k, b = v, ast.Unparen(bin.X)
				}
			}
			if cl := asCall(b); cl != nil && c.indexOfBase(cl, x.X) && c.unassignedBetween(cl, x.X, bo) {
				if fct := e.FactOf(st, b); fct != nil && fct.Lo != nil && *fct.Lo >= 0 {
					return true, fmt.Sprintf("I-found: position reported by a search in this very slice, known not to be negative (+%d)", k)
				}
			}
		}
	}
	// e[:i] / e[i:] with i the index variable of a loop over all indices of e
	if (x.Low == nil) != (x.High == nil) {
		b := x.Low
		if b == nil {
			b = x.High
		}
		if ok, _ := c.dischargeIndex(e, st, x.X, b); ok {
			if o := objOf(info, b); o != nil {
				return true, "I-loop: a bound that is a valid index of the same slice"
			}
		}
	}
	// s[:i] / s[i:] / s[i+k:] with i := strings.Index*(s, sep) known >= 0 (k <= len(sep)): the library returns -1 or
	// the index of an occurrence, which lies inside s
	{
		found := func(b ast.Expr) (bool, int64) {
			if b == nil {
				return false, 0
			}
			k := int64(0)
			b = ast.Unparen(b)
			if _, isID := b.(*ast.Ident); isID {
				if d := ast.Unparen(c.p.DefExpr(b)); d != nil {
					if _, isBin := d.(*ast.BinaryExpr); isBin {
						b = d // lineStart := strings.LastIndexByte(s, '\n') + 1
					}
				}
			}
			if bin, ok := b.(*ast.BinaryExpr); ok && bin.Op == token.ADD {
				if v, isC := constInt(info, bin.Y); isC && v >= 0 {
					k, b = v, ast.Unparen(bin.X)
				}
			}
			call, ok := ast.Unparen(c.p.DefExpr(b)).(*ast.CallExpr)
			if !ok || len(call.Args) != 2 {
				return false, 0
			}
			f := Callee(info, call)
			if f == nil || f.Pkg() == nil || f.Pkg().Path() != "strings" || !(strings.HasPrefix(f.Name(), "Index") || strings.HasPrefix(f.Name(), "LastIndex")) {
				return false, 0
			}
			if !sameExpr(info, call.Args[0], x.X) && !sameExpr(info, c.p.DefExpr(call.Args[0]), c.p.DefExpr(x.X)) {
				return false, 0
			}
			maxK := int64(1)
			if sep, isS := constString(info, call.Args[1]); isS {
				maxK = int64(len(sep))
			}
			if k > maxK {
				return false, 0
			}
			if k >= 1 {
				return true, k // -1 + k >= 0: "not found" gives the start of the string
			}
			fct := e.FactOf(st, b)
			return fct != nil && fct.Lo != nil && *fct.Lo >= 0, k
		}
		okLow, okHigh := x.Low == nil, x.High == nil
		if !okLow {
			okLow, _ = found(x.Low)
		}
		if !okHigh {
			okHigh, _ = found(x.High)
		}
		if okLow && okHigh && (x.Low == nil || x.High == nil) {
			return true, "I-found: the bound is the index strings.Index* reported for this very string and is known not to be -1"
		}
	}
	// X.s[X.pos:] for a scanner X: the position never leaves [0, len(s)] (every store to it is checked)
	if x.High == nil && x.Low != nil {
		if lo, ok := ast.Unparen(x.Low).(*ast.SelectorExpr); ok && selName(lo) == "pos" {
			if c.p.scannerTextOf(x.X, lo.X) {
				if t := info.TypeOf(lo.X); t != nil && strings.HasSuffix(strings.TrimPrefix(TypeStr(t), "*"), "parser.scanner") {
					if ok, _ := c.p.scannerPosInvariant(); ok {
						return true, "I-scanpos: the scanner position stays within [0, len(text)] (every store to it is a decoded rune's width, a saved position, the end of the text, or the position of a found byte)"
					}
				}
			}
		}
	}
	// e[k:] with len >= k
	if x.High == nil && x.Low != nil {
		if v, ok := constInt(info, x.Low); ok && v >= 0 {
			if v == 0 || c.lenAtLeast(e, st, x.X, v) {
				return true, fmt.Sprintf("I-const: len >= %d known", v)
			}
			return false, fmt.Sprintf("len(%s) >= %d is not known here", exprStr(x.X), v)
		}
	}
	// e[:n] with n := len(e) - k held in a variable
	if x.Low == nil && x.High != nil {
		kh, kb := e.CanonSt(st, x.High), e.CanonSt(st, x.X)
		if sk, ok := e.SoftKey(st, x.High); ok {
			kh.Key = sk
		}
		if kh.OK && kb.OK && strings.HasPrefix(kh.Key, "(len("+kb.Key+")-") && strings.HasSuffix(kh.Key, ")") {
			if k, ok := parseInt(kh.Key[len("(len("+kb.Key+")-") : len(kh.Key)-1]); ok && k >= 0 {
				if c.lenAtLeast(e, st, x.X, k) {
					return true, "I-last: drops the last k elements (count held in a variable) of a slice with len >= k"
				}
			}
		}
	}
	// e[:len(e)-k]
	if x.Low == nil && x.High != nil {
		if b, ok := ast.Unparen(x.High).(*ast.BinaryExpr); ok && b.Op == token.SUB {
			if call, ok := ast.Unparen(b.X).(*ast.CallExpr); ok && IsBuiltinCall(info, call, "len") && sameExpr(info, call.Args[0], x.X) {
				if k, ok := constInt(info, b.Y); ok && k >= 0 && c.lenAtLeast(e, st, x.X, k) {
					return true, "I-last: drops the last k elements of a slice with len >= k"
				}
				return false, "non-emptiness of " + exprStr(x.X) + " is not known here"
			}
		}
	}
	if x.Low == nil && x.High == nil {
		return true, "full slice"
	}
	return false, "bounds are not constants or len-relative"
}

// explicitPanicDead: (a) Walk's default branch is dead when C11/handled holds; (b) an inner switch's panicking
// default is dead when its cases cover the enclosing case list on the same tag.
func (p *Program) explicitPanicDead(pkg *packages.Package, fd *ast.FuncDecl, call *ast.CallExpr) (bool, string) {
	info := pkg.TypesInfo
	if pkg == p.Parser && p.inWalkRegion(fd) {
		// the traversal rules (C11/handled, C11/nil, ...) decide that every node that can be popped has a case
		if why := p.walkUnhandled(); why != "" {
			return false, why
		}
		return true, "panic of the traversal: every dynamic type that can reach the worklist is dispatched to a case (C11/handled; nil children are excluded by C11/nil)"
	}
	// inner switch default
	var inner *ast.CaseClause
	p.ancestors(call, fd, func(anc, _ ast.Node) bool {
		if cc, ok := anc.(*ast.CaseClause); ok && inner == nil {
			inner = cc
		}
		return inner == nil
	})
	if inner != nil && inner.List == nil {
		sw, _ := p.Parent(p.Parent(inner)).(*ast.SwitchStmt)
		var outer *ast.CaseClause
		if sw != nil {
			p.ancestors(sw, fd, func(anc, _ ast.Node) bool {
				if cc, ok := anc.(*ast.CaseClause); ok && outer == nil {
					outer = cc
				}
				return outer == nil
			})
		}
		if sw != nil && outer != nil {
			osw, _ := p.Parent(p.Parent(outer)).(*ast.SwitchStmt)
			if osw != nil && osw.Tag != nil && sw.Tag != nil && sameExpr(info, osw.Tag, sw.Tag) {
				have := map[string]bool{}
				for _, c := range sw.Body.List {
					for _, e := range c.(*ast.CaseClause).List {
						have[constName(info, e)] = true
					}
				}
				all := true
				for _, e := range outer.List {
					if !have[constName(info, e)] {
						all = false
					}
				}
				// the tag must not be reassigned between the two switches
				if all && !writesToExpr(info, outer, sw.Tag, sw.Pos()) {
					return true, "default of an inner switch whose cases repeat every value of the enclosing case on the same tag"
				}
			}
		}
	}
	return false, "no table argument shows this panic to be unreachable"
}

func writesToExpr(info *types.Info, scope ast.Node, target ast.Expr, before token.Pos) bool {
	w := false
	ast.Inspect(scope, func(n ast.Node) bool {
		if as, ok := n.(*ast.AssignStmt); ok && as.Pos() < before {
			for _, l := range as.Lhs {
				if sameExpr(info, l, target) {
					w = true
				}
				if sel, ok := ast.Unparen(target).(*ast.SelectorExpr); ok && sameExpr(info, l, sel.X) {
					w = true
				}
			}
		}
		return true
	})
	return w
}

func ruleC12Panic(p *Program, r *Run) {
	used := map[string]bool{}
	type unit struct {
		pkg   *packages.Package
		fd    *ast.FuncDecl
		fn    string
		sites []*SiteResult
		errs  []string
	}
	var units []*unit
	failed := map[*ast.FuncDecl]bool{}
	run := func(u *unit, inline map[*types.Func]bool) {
		c := &panicClient{p: p, pkg: u.pkg, fn: u.fn, used: used, inline: inline, failed: failed}
		e := NewEngine(p, u.pkg, u.fd, c)
		e.Run(nil)
		u.errs = e.Errs
		u.sites = e.Sites()
	}
	for _, pkg := range p.Lib() {
		for _, fd := range AllFuncs(pkg) {
			fn := FuncName(pkg, fd)
			if p.IsGenerated(pkg, fd.Pos()) {
				r.Pass("C12/panic", fn+" (generated by stringer)", p.Pos(fd.Pos()), "generated code, exempt as a unit: its table lookups are guarded by the range checks stringer emits and compile-time assertions pin the constant values")
				continue
			}
			if fobj := FuncObj(pkg, fd); fobj != nil && !p.reachableFromAPI()[fobj] {
				r.Note("C12/panic: %s is not reachable from Scan, SplitStatements, Parse, Walk or Compile and is outside this property", fn)
				continue
			}
			r.Saw(fn)
			u := &unit{pkg: pkg, fd: fd, fn: fn}
			units = append(units, u)
			run(u, nil)
		}
	}
	// Second pass: an obligation that cannot be decided inside an unexported helper is decided in the context of
	// each of its callers instead (the helper is interpreted in place there, parameters bound to the arguments).
	inline := map[*types.Func]bool{}
	for _, u := range units {
		if failed[u.fd] {
			if fn := FuncObj(u.pkg, u.fd); p.onlyCalledDirectly(fn) && smallBody(u.fd) {
				inline[fn] = true
			}
		}
	}
	if len(inline) > 0 {
		ctxSites := map[*ast.FuncDecl][]*SiteResult{}
		reached := map[*ast.FuncDecl]int{}
		for _, u := range units {
			if inline[FuncObj(u.pkg, u.fd)] || !p.callsAny(u.fd, inline) {
				continue
			}
			u2 := &unit{pkg: u.pkg, fd: u.fd, fn: u.fn}
			failed2 := map[*ast.FuncDecl]bool{}
			c := &panicClient{p: p, pkg: u.pkg, fn: u.fn, used: used, inline: inline, failed: failed2, entered: reached}
			e := NewEngine(p, u.pkg, u.fd, c)
			e.Run(nil)
			u2.sites = e.Sites()
			for _, s := range u2.sites {
				if h := p.FuncAt(s.Node.Pos()); h != nil && h != u.fd {
					ctxSites[h] = append(ctxSites[h], s)
				}
			}
			for _, m := range e.Errs {
				r.Fail("C12/panic", u.fn+" engine (with helpers in place)", "-", m)
			}
		}
		for _, u := range units {
			if !inline[FuncObj(u.pkg, u.fd)] || reached[u.fd] == 0 {
				continue
			}
			// the helper's own failing sites are replaced by their verdicts in every calling context
			var kept []*SiteResult
			for _, s := range u.sites {
				if len(s.Fails) == 0 {
					kept = append(kept, s)
				}
			}
			u.sites = append(kept, ctxSites[u.fd]...)
			r.Note("C12/panic: obligations of helper %s are decided in the contexts of its %d call paths (helper interpreted in place)", u.fn, reached[u.fd])
		}
	}
	for _, u := range units {
		for _, m := range u.errs {
			r.Fail("C12/panic", u.fn+" engine", "-", m)
		}
		for _, s := range u.sites {
			pos := p.Pos(s.Node.Pos())
			if len(s.Fails) == 0 {
				r.PassNT(s.Rule, s.Key, pos, fmt.Sprintf("%s (all %d abstract path states)", s.How, s.Visits))
			} else {
				r.Fail(s.Rule, s.Key, pos, strings.Join(s.Fails, "; "))
			}
		}
	}
	var unused []string
	for k := range reviewedIndex {
		if !used[k] {
			unused = append(unused, k)
		}
	}
	sort.Strings(unused)
	for _, k := range unused {
		r.Note("reviewed row not used on this tree (construct gone or now discharged by an idiom): %s", k)
	}
	r.Floor("C12/panic", 40)
	ruleC12Support(p, r)
}

// onlyCalledDirectly: an unexported function all of whose uses are direct calls outside function literals.
func (p *Program) onlyCalledDirectly(fn *types.Func) bool {
	if fn == nil || fn.Exported() {
		return false
	}
	info := p.Info
	calls, other := 0, 0
	for _, pkg := range p.All {
		for _, f := range pkg.Syntax {
			lit := 0
			var visit func(n ast.Node) bool
			visit = func(n ast.Node) bool {
				switch x := n.(type) {
				case *ast.FuncLit:
					lit++
					ast.Inspect(x.Body, visit)
					lit--
					return false
				case *ast.CallExpr:
					if Callee(info, x) == fn {
						if lit == 0 {
							calls++
						} else {
							other++
						}
						for _, a := range x.Args {
							ast.Inspect(a, visit)
						}
						if sel, ok := ast.Unparen(x.Fun).(*ast.SelectorExpr); ok {
							ast.Inspect(sel.X, visit)
						}
						return false
					}
				case *ast.Ident:
					if info.Uses[x] == types.Object(fn) {
						other++
					}
				}
				return true
			}
			ast.Inspect(f, visit)
		}
	}
	return calls > 0 && other == 0
}

// callsAny: the body of fd (transitively through the given helpers) calls one of them.
func (p *Program) callsAny(fd *ast.FuncDecl, set map[*types.Func]bool) bool {
	found := false
	ast.Inspect(fd.Body, func(n ast.Node) bool {
		if call, ok := n.(*ast.CallExpr); ok && set[Callee(p.Info, call)] {
			found = true
		}
		return !found
	})
	return found
}

// ruleC12Support checks the three invariants the reviewed rows lean on.
func ruleC12Support(p *Program, r *Run) {
	// C12/nonempty: every QualifiedIdent construction has >= 1 part; Parts only grows.
	for _, pkg := range p.Lib() {
		info := pkg.TypesInfo
		for _, fd := range AllFuncs(pkg) {
			fn := FuncName(pkg, fd)
			n := 0
			ast.Inspect(fd.Body, func(x ast.Node) bool {
				switch v := x.(type) {
				case *ast.CompositeLit:
					if TypeStr(info.TypeOf(v)) != "parser.QualifiedIdent" {
						return true
					}
					n++
					parts := litField(info, v, "Parts")
					ok := false
					if pl, isLit := ast.Unparen(orIdent(parts)).(*ast.CompositeLit); isLit && len(pl.Elts) >= 1 {
						ok = true
					}
					r.Check(ok, "C12/nonempty", fmt.Sprintf("%s QualifiedIdent literal #%d", fn, n), p.Pos(v.Pos()), "constructed with at least one part", "a QualifiedIdent can be constructed without parts: Parts[0] panics in the compiler")
				case *ast.AssignStmt:
					for i, l := range v.Lhs {
						f := selField(info, l)
						if f == nil || f.Name() != "Parts" || i >= len(v.Rhs) {
							continue
						}
						call, isCall := ast.Unparen(v.Rhs[i]).(*ast.CallExpr)
						ok := isCall && IsBuiltinCall(info, call, "append") && sameExpr(info, call.Args[0], l)
						r.Check(ok, "C12/nonempty", fn+" store to QualifiedIdent.Parts", p.Pos(v.Pos()), "only ever appended to", "QualifiedIdent.Parts is overwritten (not appended to): it could become empty")
					}
				}
				return true
			})
		}
	}
	r.Floor("C12/nonempty", 4)
	ruleC12Post(p, r)
	// C12/variadic: firstParse is always called with >= 1 production
	fp := p.FuncDecl(p.Parser, "firstParse")
	if fp == nil {
		r.PassNT("C12/variadic", "parser.firstParse call sites pass at least one production", p.Pos(p.MustFunc(p.Parser, "Parse").Pos()), "no variadic alternative combinator on this tree")
		return
	}
	fpo := FuncObj(p.Parser, fp)
	calls := 0
	okVar := true
	for _, fd := range AllFuncs(p.Parser) {
		ast.Inspect(fd.Body, func(n ast.Node) bool {
			if call, ok := n.(*ast.CallExpr); ok {
				if f := Callee(p.Parser.TypesInfo, call); f != nil && (f == fpo || f.Origin() == fpo) {
					calls++
					if len(call.Args) < 1 || call.Ellipsis.IsValid() {
						okVar = false
					}
				}
			}
			return true
		})
	}
	r.Check(okVar && calls > 0, "C12/variadic", "parser.firstParse call sites pass at least one production", p.Pos(fp.Pos()), fmt.Sprintf("%d call sites, each with explicit arguments", calls), "firstParse can be called without productions: productions[len-1] panics")
}

// postClient: a function (list, ...) -> (list, error) returns a longer list on success.
type postClient struct {
	BaseClient
	InlinePure // predicates and local closures (advance := func() error { ...; dst = append(dst, sub) })
	growers    map[*types.Func]*ast.FuncDecl
	list       types.Object
	returns    int
	bad        string
}

func (c *postClient) PreAssign(e *Engine, st *State, lhs, rhs []ast.Expr, _ ast.Stmt) *State {
	for i, l := range lhs {
		if objOf(e.Info, l) != c.list {
			continue
		}
		var r ast.Expr
		switch {
		case len(rhs) == len(lhs):
			r = rhs[i]
		case len(rhs) == 1:
			r = rhs[0]
		}
		call, ok := ast.Unparen(r).(*ast.CallExpr)
		grows := false
		if ok {
			if IsBuiltinCall(e.Info, call, "append") && len(call.Args) >= 2 && objOf(e.Info, call.Args[0]) == c.list && !call.Ellipsis.IsValid() {
				grows = true
			}
			if f := Callee(e.Info, call); f != nil && c.growers[f] != nil && len(call.Args) > 0 && objOf(e.Info, call.Args[0]) == c.list && i == 0 {
				grows = true // by the same rule applied to that function
			}
		}
		// a temporary holding such a result: v, err := grower(list, ...); list = v
		if !grows && r != nil {
			if f := e.FactOf(st, r); f != nil && hasStr(f.Tags, "grown") {
				grows = true
			}
		}
		if !grows {
			if e.Reporting() {
				c.bad = "the list is assigned from " + exprStr(r) + ", which is not known to make it longer"
			}
			return st.WithExt("grown", "")
		}
		return st.WithExt("grown", "1")
	}
	return nil
}

// PostCall: the result of a grower called with the list is a longer list.
func (c *postClient) PostCall(e *Engine, st *State, call *ast.CallExpr, callee *types.Func) *State {
	if callee == nil || c.growers[callee] == nil || len(call.Args) == 0 || objOf(e.Info, call.Args[0]) != c.list {
		return nil
	}
	ids := e.CallResults(call)
	if len(ids) < 2 {
		return nil
	}
	k := e.CanonSt(st, ids[0])
	if !k.OK {
		return nil
	}
	if n := e.update(st.killObj(e.Info.Defs[ids[0]]), k, func(f *Fact) { f.Tags = []string{"grown"} }); n != nil {
		return n
	}
	return nil
}

func (c *postClient) Return(e *Engine, st *State, ret *ast.ReturnStmt) {
	if !e.Reporting() || e.Lit != nil || ret == nil || len(ret.Results) < 2 {
		return
	}
	if last := ret.Results[len(ret.Results)-1]; !isNilIdent(e.Info, last) && !e.IsNil(st, last) {
		return // failure return
	}
	c.returns++
	if call, ok := ast.Unparen(ret.Results[0]).(*ast.CallExpr); ok && IsBuiltinCall(e.Info, call, "append") && len(call.Args) >= 2 && objOf(e.Info, call.Args[0]) == c.list && !call.Ellipsis.IsValid() {
		return // return append(list, x), nil
	}
	if objOf(e.Info, ret.Results[0]) != c.list {
		if f := e.FactOf(st, ret.Results[0]); f == nil || !hasStr(f.Tags, "grown") {
			c.bad = "the return at " + e.P.Pos(ret.Pos()) + " gives back something other than the list"
		}
		return
	}
	if st.Ext("grown") == "1" {
		return
	}
	// the length differs from the one saved at entry (and the list only ever grows)
	lk := "len(" + e.objKey(c.list) + ")"
	for _, k := range st.Keys() {
		if strings.HasPrefix(k, "(") && strings.Contains(k, " == ") && strings.Contains(k, lk) {
			if f := st.Get(k); f != nil && f.HasEq && f.Eq == "false" {
				return
			}
		}
	}
	c.bad = "the return at " + e.P.Pos(ret.Pos()) + " is reached on a path where the list is not known to be longer than at entry"
}

// inWalkRegion: fd is parser.Walk or a function that only Walk's code calls (a helper it was split into).
func (p *Program) inWalkRegion(fd *ast.FuncDecl) bool {
	walk := p.FuncDecl(p.Parser, "Walk")
	if walk == nil {
		return false
	}
	if fd == walk {
		return true
	}
	for _, root := range p.regionOf(p.Parser, walk.Body) {
		if root == ast.Node(fd.Body) {
			return true
		}
	}
	return false
}

// walkUnhandled runs the traversal rules once and returns the first failed C11/handled or C11/nil obligation ("" if
// none).
func (p *Program) walkUnhandled() string {
	if p.walkChecked {
		return p.walkWhy
	}
	p.walkChecked = true
	r := NewRun("C11", "quick")
	ruleC11Sem(p, r)
	for _, o := range r.Obs {
		if !o.OK && (o.Rule == "C11/handled" || o.Rule == "C11/nil") {
			p.walkWhy = "the traversal can meet a node it has no case for: " + o.Key + ": " + o.How
			break
		}
	}
	return p.walkWhy
}

// scannerPosInvariant: every store to the scanner's position keeps it within [0, len(text)]:
//   - pos += n with n the width utf8.DecodeRune(InString) reported for text[pos:];
//   - pos = last (an earlier position);
//   - pos = <parameter>, where every call passes a saved position (a variable only ever assigned from X.pos), a saved
//     position plus a constant (bytes the function has read since: argued, not checked), len(X.s), or
//     X.pos + i (+ k) with i the result of strings.Index*(X.s[X.pos:], sep) under a test of i and k <= len(sep).
func (p *Program) scannerPosInvariant() (bool, string) {
	if p.scanPosDone {
		return p.scanPosOK, p.scanPosWhy
	}
	p.scanPosDone = true
	pkg := p.Parser
	info := p.Info
	isScanner := func(x ast.Expr) bool {
		t := info.TypeOf(x)
		return t != nil && strings.HasSuffix(strings.TrimPrefix(TypeStr(t), "*"), "parser.scanner")
	}
	isPosOf := func(x ast.Expr) bool {
		sel, ok := ast.Unparen(x).(*ast.SelectorExpr)
		return ok && selName(sel) == "pos" && isScanner(sel.X)
	}
	savedPos := func(x ast.Expr) bool {
		if isPosOf(x) {
			return true
		}
		return p.allDefsAre(x, func(d ast.Expr) bool { return isPosOf(d) })
	}
	var argOK func(fd *ast.FuncDecl, a ast.Expr, at ast.Node) bool
	argOK = func(fd *ast.FuncDecl, a ast.Expr, at ast.Node) bool {
		a = ast.Unparen(a)
		if savedPos(a) {
			return true
		}
		if call, ok := a.(*ast.CallExpr); ok && IsBuiltinCall(info, call, "len") && len(call.Args) == 1 {
			if sel, ok := ast.Unparen(call.Args[0]).(*ast.SelectorExpr); ok && selName(sel) == "s" && isScanner(sel.X) {
				return true
			}
			// len(query) where the scanner the position is stored to was built over query
			if cc, ok := at.(*ast.CallExpr); ok {
				if fs, ok := ast.Unparen(cc.Fun).(*ast.SelectorExpr); ok && isScanner(fs.X) && p.scannerTextOf(call.Args[0], fs.X) {
					return true
				}
			}
		}
		// sums: flatten
		var terms []ast.Expr
		var flat func(e ast.Expr)
		flat = func(e ast.Expr) {
			if b, ok := ast.Unparen(e).(*ast.BinaryExpr); ok && b.Op == token.ADD {
				flat(b.X)
				flat(b.Y)
				return
			}
			terms = append(terms, ast.Unparen(e))
		}
		flat(a)
		if len(terms) < 2 {
			return false
		}
		base, consts, found := 0, int64(0), 0
		maxK := int64(-1)
		for _, t := range terms {
			switch {
			case savedPos(t):
				base++
			case constOf(info, t) != nil:
				v, _ := constInt(info, t)
				if v < 0 {
					return false
				}
				consts += v
			default:
				// i := strings.Index*(X.s[X.pos:], sep)
				d, ok := ast.Unparen(p.DefExpr(t)).(*ast.CallExpr)
				if !ok || len(d.Args) != 2 {
					return false
				}
				f := Callee(info, d)
				if f == nil || f.Pkg() == nil || f.Pkg().Path() != "strings" || !strings.HasPrefix(f.Name(), "Index") {
					return false
				}
				sl, ok := ast.Unparen(d.Args[0]).(*ast.SliceExpr)
				if !ok || sl.High != nil || !isPosOf(sl.Low) || !p.scannerTextOf(sl.X, ast.Unparen(sl.Low).(*ast.SelectorExpr).X) {
					return false
				}
				maxK = 1
				if sep, isS := constString(info, d.Args[1]); isS {
					maxK = int64(len(sep))
				}
				// the result is tested before it is used
				tested := false
				if o := objOf(info, t); o != nil {
					for n := p.Parent(at); n != nil; n = p.Parent(n) {
						if ifs, isIf := n.(*ast.IfStmt); isIf {
							ast.Inspect(ifs.Cond, func(m ast.Node) bool {
								if id, ok := m.(*ast.Ident); ok && objOf(info, id) == o {
									tested = true
								}
								return true
							})
						}
						if _, isFn := n.(*ast.FuncDecl); isFn {
							break
						}
					}
				}
				if !tested {
					return false
				}
				found++
			}
		}
		if base != 1 {
			return false
		}
		if found == 1 {
			return consts <= maxK
		}
		return found == 0 // a saved position plus constants: bytes read since (argued)
	}
	ok, why := true, ""
	bad := func(n ast.Node, msg string) {
		if ok {
			ok, why = false, msg+" at "+p.Pos(n.Pos())
		}
	}
	for _, fd := range AllFuncs(pkg) {
		recvScanner := fd.Recv != nil && len(fd.Recv.List) == 1 && strings.HasSuffix(strings.TrimPrefix(TypeStr(info.TypeOf(fd.Recv.List[0].Type)), "*"), "parser.scanner")
		ast.Inspect(fd.Body, func(n ast.Node) bool {
			switch v := n.(type) {
			case *ast.IncDecStmt:
				if isPosOf(v.X) {
					bad(v, "the scanner position is stepped by one byte")
				}
			case *ast.AssignStmt:
				for i, l := range v.Lhs {
					if !isPosOf(l) {
						continue
					}
					if !recvScanner {
						bad(v, "the scanner position is assigned outside the scanner's methods")
						continue
					}
					if i >= len(v.Rhs) {
						bad(v, "unrecognised store to the scanner position")
						continue
					}
					rhs := ast.Unparen(v.Rhs[i])
					switch v.Tok {
					case token.ADD_ASSIGN:
						// n from c, n := utf8.DecodeRuneInString(text[pos:])
						okN := false
						if o := objOf(info, rhs); o != nil {
							ast.Inspect(fd.Body, func(m ast.Node) bool {
								if as, isAs := m.(*ast.AssignStmt); isAs && len(as.Lhs) == 2 && len(as.Rhs) == 1 && objOf(info, as.Lhs[1]) == o {
									if call, isCall := ast.Unparen(as.Rhs[0]).(*ast.CallExpr); isCall {
										if f := Callee(info, call); f != nil && strings.HasPrefix(f.FullName(), "unicode/utf8.DecodeRune") {
											okN = true
										}
									}
								}
								return true
							})
						}
						if !okN {
							bad(v, "the scanner position is advanced by something other than a decoded rune's width")
						}
					case token.ASSIGN:
						if sel, isSel := rhs.(*ast.SelectorExpr); isSel && selName(sel) == "last" && isScanner(sel.X) {
							continue
						}
						if savedPos(rhs) {
							continue
						}
						// a parameter: every call site
						po := objOf(info, rhs)
						idx, k := -1, 0
						for _, f := range fd.Type.Params.List {
							for _, nm := range f.Names {
								if info.Defs[nm] == po && po != nil {
									idx = k
								}
								k++
							}
						}
						if idx < 0 || !p.neverReassigned(po) {
							bad(v, "unrecognised store to the scanner position")
							continue
						}
						fobj := FuncObj(pkg, fd)
						for _, caller := range AllFuncs(pkg) {
							ast.Inspect(caller.Body, func(m ast.Node) bool {
								if call, isCall := m.(*ast.CallExpr); isCall && Callee(info, call) == fobj && idx < len(call.Args) {
									if !argOK(caller, call.Args[idx], call) {
										bad(call, "the scanner is moved to "+exprStr(call.Args[idx])+", which is not a saved position, the end of the text or the place of a found byte")
									}
								}
								return true
							})
						}
					default:
						bad(v, "unrecognised store to the scanner position")
					}
				}
			}
			return true
		})
	}
	p.scanPosOK, p.scanPosWhy = ok, why
	return ok, why
}

// scannerTextOf: x denotes the text scanner sc works on - sc.s itself, or the variable the scanner's text field was
// initialised with when sc was built in this function (s := &scanner{s: query}), provided neither that variable nor
// the field is ever assigned afterwards.
func (p *Program) scannerTextOf(x, sc ast.Expr) bool {
	info := p.Info
	x = ast.Unparen(x)
	if sel, ok := x.(*ast.SelectorExpr); ok {
		return selName(sel) == "s" && sameExpr(info, sel.X, sc)
	}
	v, isVar := objOf(info, x).(*types.Var)
	so := objOf(info, sc)
	if !isVar || so == nil || !p.neverReassigned(v) || !p.neverReassigned(so) {
		return false
	}
	def := ast.Unparen(p.DefExpr(sc))
	if u, ok := def.(*ast.UnaryExpr); ok && u.Op == token.AND {
		def = ast.Unparen(u.X)
	}
	cl, ok := def.(*ast.CompositeLit)
	if !ok {
		return false
	}
	init := litField(info, cl, "s")
	if init == nil || objOf(info, init) != types.Object(v) {
		return false
	}
	// the text field is only ever set when a scanner is built
	stored := false
	for _, fd := range AllFuncs(p.Parser) {
		ast.Inspect(fd.Body, func(n ast.Node) bool {
			if as, ok := n.(*ast.AssignStmt); ok {
				for _, l := range as.Lhs {
					if sel, ok := ast.Unparen(l).(*ast.SelectorExpr); ok && selName(sel) == "s" {
						if t := info.TypeOf(sel.X); t != nil && strings.HasSuffix(strings.TrimPrefix(TypeStr(t), "*"), "parser.scanner") {
							stored = true
						}
					}
				}
			}
			return true
		})
	}
	return !stored
}

// unassignedBetween: from and to lie in the same statement list (to possibly nested in a later statement) and no
// statement from the one holding from up to the one holding to assigns the variable.
func (c *panicClient) unassignedBetween(from, to ast.Node, v types.Object) bool {
	return c.p.unassignedBetween(from, to, v)
}

func (p *Program) unassignedBetween(from, to ast.Node, v types.Object) bool {
	c := struct{ p *Program }{p}
	info := c.p.Info
	// the statement list that directly holds the statement of from
	var stmt ast.Node = from
	for stmt != nil {
		par := c.p.Parent(stmt)
		if blk, ok := par.(*ast.BlockStmt); ok {
			start := -1
			for i, s := range blk.List {
				if s == stmt {
					start = i
				}
			}
			if start < 0 {
				return false
			}
			for _, s := range blk.List[start:] {
				holds := s.Pos() <= to.Pos() && to.End() <= s.End()
				written := false
				ast.Inspect(s, func(n ast.Node) bool {
					if n != nil && holds && n.Pos() >= to.End() {
						return false // after the use
					}
					if as, ok := n.(*ast.AssignStmt); ok && as != stmt {
						// x = x[i+1:]: the right-hand side is evaluated before the store
						usedInRhs := false
						for _, rh := range as.Rhs {
							if rh.Pos() <= to.Pos() && to.End() <= rh.End() {
								usedInRhs = true
							}
						}
						for _, l := range as.Lhs {
							if objOf(info, l) == v && !usedInRhs {
								written = true
							}
						}
					}
					if u, ok := n.(*ast.UnaryExpr); ok && u.Op == token.AND && objOf(info, u.X) == v {
						written = true
					}
					return true
				})
				if written {
					return false
				}
				if holds {
					return true
				}
			}
			return false
		}
		stmt = par
	}
	return false
}

// indexOfBase: call is `f(base, ...)` where f reports a position inside its first argument or a negative number:
// strings.Index*/LastIndex*, slices.Index/IndexFunc/BinarySearch-free searches, or a module function every return of
// which is a negative constant or the index variable of a loop over all indices of its first parameter.
func (c *panicClient) indexOfBase(call *ast.CallExpr, base ast.Expr) bool {
	info := c.p.Info
	if call == nil || len(call.Args) < 1 {
		return false
	}
	bo := objOf(info, base)
	if bo == nil || objOf(info, call.Args[0]) != bo {
		return false
	}
	f := Callee(info, call)
	if f == nil {
		return false
	}
	if f.Pkg() != nil {
		switch f.Pkg().Path() {
		case "strings", "bytes":
			return strings.HasPrefix(f.Name(), "Index") || strings.HasPrefix(f.Name(), "LastIndex")
		case "slices":
			return f.Name() == "Index" || f.Name() == "IndexFunc"
		}
	}
	decl, _ := c.p.DeclOf(f)
	if decl == nil || decl.Body == nil || decl.Type.Params == nil || len(decl.Type.Params.List) == 0 || len(decl.Type.Params.List[0].Names) == 0 {
		return false
	}
	param := info.Defs[decl.Type.Params.List[0].Names[0]]
	if param == nil {
		return false
	}
	ok, rets := true, 0
	ast.Inspect(decl.Body, func(n ast.Node) bool {
		if _, nested := n.(*ast.FuncLit); nested {
			return false
		}
		ret, isRet := n.(*ast.ReturnStmt)
		if !isRet {
			return true
		}
		rets++
		if len(ret.Results) != 1 {
			ok = false
			return true
		}
		if v, isC := constInt(info, ret.Results[0]); isC {
			if v >= 0 {
				ok = false
			}
			return true
		}
		io := objOf(info, ret.Results[0])
		inLoop := false
		if io != nil {
			for a := c.p.Parent(ret); a != nil; a = c.p.Parent(a) {
				switch l := a.(type) {
				case *ast.ForStmt:
					if (isCountedLoopOver(info, l, io, decl.Type.Params.List[0].Names[0]) || isDownLoopOver(info, l, io, param)) && !writesTo(info, l.Body, io) && !writesTo(info, l.Body, param) {
						inLoop = true
					}
				case *ast.RangeStmt:
					if l.Key != nil && objOf(info, l.Key) == io && objOf(info, l.X) == param && !writesTo(info, l.Body, io) && !writesTo(info, l.Body, param) {
						inLoop = true
					}
				}
			}
		}
		if !inLoop {
			ok = false
		}
		return true
	})
	return ok && rets > 0
}

// isDownLoopOver: for i := len(p) - 1; i >= 0; i-- { ... }
func isDownLoopOver(info *types.Info, l *ast.ForStmt, i, p types.Object) bool {
	as, ok := l.Init.(*ast.AssignStmt)
	if !ok || len(as.Lhs) != 1 || len(as.Rhs) != 1 || objOf(info, as.Lhs[0]) != i || !isLenMinus1(info, as.Rhs[0], p) {
		return false
	}
	cond, ok := ast.Unparen(l.Cond).(*ast.BinaryExpr)
	if !ok || objOf(info, cond.X) != i {
		return false
	}
	z, isC := constInt(info, cond.Y)
	if !(isC && (cond.Op == token.GEQ && z == 0 || cond.Op == token.GTR && z == -1)) {
		return false
	}
	dec, ok := l.Post.(*ast.IncDecStmt)
	return ok && dec.Tok == token.DEC && objOf(info, dec.X) == i
}

// clampedBound: v is a local that is defined once and otherwise only assigned the other bound of the same slice
// expression, inside an `if` that compares the two. Returns the defining expression.
func (p *Program) clampedBound(v, other ast.Expr) ast.Expr {
	if v == nil || other == nil {
		return nil
	}
	vid, ok := ast.Unparen(v).(*ast.Ident)
	oid, ok2 := ast.Unparen(other).(*ast.Ident)
	if !ok || !ok2 {
		return nil
	}
	vo, oo := objOf(p.Info, vid), objOf(p.Info, oid)
	if vo == nil || oo == nil || vo == oo {
		return nil
	}
	var fn ast.Node = vid
	for fn != nil {
		if _, isFD := fn.(*ast.FuncDecl); isFD {
			break
		}
		fn = p.Parent(fn)
	}
	if fn == nil {
		return nil
	}
	var def ast.Expr
	good, clamps := true, 0
	ast.Inspect(fn, func(n ast.Node) bool {
		switch st := n.(type) {
		case *ast.AssignStmt:
			for i, l := range st.Lhs {
				if objOf(p.Info, l) != vo {
					continue
				}
				if st.Tok == token.DEFINE && len(st.Lhs) == len(st.Rhs) && def == nil {
					def = st.Rhs[i]
					continue
				}
				// v = other, directly inside `if v <op> other { ... }`
				isClamp := false
				if st.Tok == token.ASSIGN && len(st.Lhs) == 1 && len(st.Rhs) == 1 && objOf(p.Info, st.Rhs[0]) == oo {
					if blk, isBlk := p.Parent(st).(*ast.BlockStmt); isBlk && len(blk.List) == 1 {
						if is, isIf := p.Parent(blk).(*ast.IfStmt); isIf && is.Else == nil && is.Init == nil {
							if b, isB := ast.Unparen(is.Cond).(*ast.BinaryExpr); isB {
								switch b.Op {
								case token.LSS, token.GTR, token.LEQ, token.GEQ:
									a, c := objOf(p.Info, b.X), objOf(p.Info, b.Y)
									if (a == vo && c == oo) || (a == oo && c == vo) {
										isClamp = true
									}
								}
							}
						}
					}
				}
				if isClamp {
					clamps++
				} else {
					good = false
				}
			}
		case *ast.IncDecStmt:
			if objOf(p.Info, st.X) == vo {
				good = false
			}
		case *ast.UnaryExpr:
			if st.Op == token.AND && objOf(p.Info, st.X) == vo {
				good = false
			}
		}
		return true
	})
	if !good || clamps == 0 || def == nil {
		return nil
	}
	return def
}

// ruleC12Post: splitQueries hands back a longer list than it was given (also part of C03: the right side of a join
// is the last subquery the recursion returned, which is the right-hand pipeline only if the recursion added one).
func ruleC12Post(p *Program, r *Run) {
	// C12/post: splitQueries (and any helper of the same shape it hands its list to) returns the list with at least
	// one more element than it was given. Decided on path facts at every successful return: the list was appended
	// to on this path (or replaced by the result of a function of the same shape called with it), or it is known
	// to differ in length from the length saved at entry while every assignment to it only makes it longer.
	sq := p.MustFunc(p.PQL, "splitQueries")
	info := p.PQL.TypesInfo
	growers := map[*types.Func]*ast.FuncDecl{}
	sqSig := FuncObj(p.PQL, sq).Type().(*types.Signature)
	for _, fd := range AllFuncs(p.PQL) {
		fn := FuncObj(p.PQL, fd)
		sig := fn.Type().(*types.Signature)
		if sig.Params().Len() > 0 && sig.Results().Len() >= 2 && types.Identical(sig.Params().At(0).Type(), sqSig.Params().At(0).Type()) &&
			types.Identical(sig.Results().At(0).Type(), sqSig.Results().At(0).Type()) && TypeStr(sig.Results().At(sig.Results().Len()-1).Type()) == "error" {
			growers[fn] = fd
		}
	}
	okPost, postWhy := true, ""
	for fn, fd := range growers {
		if fn != FuncObj(p.PQL, sq) && !p.callsAny(sq, map[*types.Func]bool{fn: true}) {
			continue
		}
		pc := &postClient{growers: growers, list: info.Defs[fd.Type.Params.List[0].Names[0]]}
		pe := NewEngine(p, p.PQL, fd, pc)
		pe.Run(nil)
		if len(pe.Errs) > 0 {
			okPost, postWhy = false, strings.Join(pe.Errs, "; ")
		}
		if pc.bad != "" {
			okPost, postWhy = false, FuncName(p.PQL, fd)+": "+pc.bad
		}
		if pc.returns == 0 {
			okPost, postWhy = false, FuncName(p.PQL, fd)+" has no successful return"
		}
	}
	_ = info
	r.Check(okPost, "C12/post", "pql.splitQueries returns at least one subquery more than it was given", p.Pos(sq.Pos()), "at every successful return the list is known to be longer than at entry (appended to on the path, or of a different length than saved at entry while it only ever grows)", "splitQueries can return without having appended a subquery: callers index its last element ("+postWhy+")")
}
