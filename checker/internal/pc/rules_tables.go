package pc

import (
	"fmt"
	"go/ast"
	"go/token"
	"go/types"
	"golang.org/x/tools/go/packages"
	"sort"
	"strings"
)

// ---- C01/unwrap: parenthesis-unwrapping loops descend.

func ruleC01Unwrap(p *Program, r *Run) {
	n := 0
	for _, pkg := range p.Lib() {
		info := pkg.TypesInfo
		for _, fd := range AllFuncs(pkg) {
			ast.Inspect(fd.Body, func(x ast.Node) bool {
				fs, ok := x.(*ast.ForStmt)
				if !ok || fs.Cond != nil || fs.Init != nil {
					return true
				}
				// first statement: p, ok := V.(*parser.ParenExpr)
				if len(fs.Body.List) == 0 {
					return true
				}
				as, ok := fs.Body.List[0].(*ast.AssignStmt)
				if !ok || len(as.Lhs) != 2 || len(as.Rhs) != 1 {
					return true
				}
				ta, ok := as.Rhs[0].(*ast.TypeAssertExpr)
				if !ok || ta.Type == nil || TypeStr(info.TypeOf(ta.Type)) != "*parser.ParenExpr" {
					return true
				}
				v := objOf(info, ta.X)
				bound := objOf(info, as.Lhs[0])
				if v == nil || bound == nil {
					return true
				}
				n++
				fn := FuncName(pkg, fd)
				r.Saw(fn)
				key := fmt.Sprintf("%s paren-unwrap loop", fn)
				// the assignment that continues the loop
				var cont *ast.AssignStmt
				for _, s := range fs.Body.List[1:] {
					if a, ok := s.(*ast.AssignStmt); ok && len(a.Lhs) == 1 && objOf(info, a.Lhs[0]) == v {
						cont = a
					}
				}
				if cont == nil {
					r.Fail("C01/unwrap", key, p.Pos(fs.Pos()), "the loop never replaces the expression it tests: it cannot terminate on a parenthesised expression")
					return true
				}
				f := fieldSel(info, cont.Rhs[0], bound)
				ok2 := f != nil && TypeStr(f.Type()) == "parser.Expr"
				r.Check(ok2, "C01/unwrap", key, p.Pos(cont.Pos()), "continues with the operand of the parenthesised expression (structurally smaller)", fmt.Sprintf("the loop continues with %s, which is not the inner expression of the ParenExpr it just matched: any parenthesised expression makes compilation spin forever", exprStr(cont.Rhs[0])))
				return true
			})
		}
	}
	// whatever the unwrapping idiom is: no text is ever written for a node that may still be a ParenExpr
	g := p.Grammar()
	type w struct {
		n   int
		bad *emitEvent
	}
	writers := map[string]*w{}
	// the functions concerned: those that write *the expression* of their node parameter, i.e. look at its kind
	// (type switch / assertion) or hand it to another writer
	writesNode := map[*ast.FuncDecl]bool{}
	nodeWriter := func(fd *ast.FuncDecl) bool {
		if v, ok := writesNode[fd]; ok {
			return v
		}
		xp := g.xParamOf(fd)
		res := false
		if xp != nil {
			info := p.Info
			ast.Inspect(fd.Body, func(n ast.Node) bool {
				switch v := n.(type) {
				case *ast.TypeAssertExpr:
					if objOf(info, v.X) == xp {
						res = true
					}
				case *ast.CallExpr:
					if f := Callee(info, v); f != nil && g.emitFns[f] {
						for _, a := range v.Args {
							if objOf(info, a) == xp {
								res = true
							}
						}
					}
				}
				return !res
			})
		}
		writesNode[fd] = res
		return res
	}
	// a writer that is only ever handed nodes known not to be a ParenExpr (the shared "( expr )" tail of two writers
	// that have already unwrapped): what reaches it is decided at its call sites
	onlyUnwrapped := map[*ast.FuncDecl]bool{}
	{
		calls := map[*types.Func]map[*ast.CallExpr]bool{}
		bad := map[*types.Func]bool{}
		for _, o := range g.occs {
			if o.Ev.Kind != "HOLE" || o.Ev.Callee == nil {
				continue
			}
			if calls[o.Ev.Callee] == nil {
				calls[o.Ev.Callee] = map[*ast.CallExpr]bool{}
			}
			calls[o.Ev.Callee][o.Ev.Call] = true
			if o.ArgKinds == nil || hasStr(o.ArgKinds, "*parser.ParenExpr") {
				bad[o.Ev.Callee] = true
			}
		}
		for f, cs := range calls {
			decl := g.fnDecl[f]
			if decl == nil || bad[f] || f.Exported() {
				continue
			}
			// every call of the function in the module is one of those
			n := 0
			for _, pkg := range p.All {
				for _, file := range pkg.Syntax {
					ast.Inspect(file, func(x ast.Node) bool {
						switch v := x.(type) {
						case *ast.CallExpr:
							if Callee(pkg.TypesInfo, v) == f {
								n++
							}
						case *ast.Ident:
							if pkg.TypesInfo.Uses[v] == types.Object(f) {
								if call, isCall := p.Parent(v).(*ast.CallExpr); !isCall || call.Fun != ast.Expr(v) {
									n += 1000 // used as a value
								}
							}
						}
						return true
					})
				}
			}
			if n == len(cs) {
				onlyUnwrapped[decl] = true
			}
		}
	}
	for _, o := range g.occs {
		if !nodeWriter(o.Ev.Func) {
			continue
		}
		if onlyUnwrapped[o.Ev.Func] {
			continue
		}
		ww := writers[o.Ev.FnName]
		if ww == nil {
			ww = &w{}
			writers[o.Ev.FnName] = ww
		}
		ww.n++
		if hasStr(o.Kinds, "*parser.ParenExpr") && ww.bad == nil {
			ww.bad = o.Ev
		}
	}
	var names []string
	for n := range writers {
		names = append(names, n)
	}
	sort.Strings(names)
	for _, n := range names {
		ww := writers[n]
		key := n + " never writes while its node may be a ParenExpr"
		if ww.bad == nil {
			r.PassNT("C01/unwrap", key, "-", fmt.Sprintf("path facts exclude *parser.ParenExpr at all %d emission occurrences", ww.n))
		} else {
			r.Fail("C01/unwrap", key, p.Pos(ww.bad.Call.Pos()), "SQL text is written on a path where the node can still be a *parser.ParenExpr (source parentheses are not removed completely before dispatch): nested parentheses reach the `unhandled expression` fallback or are treated as operands of the wrong class")
		}
	}
	r.Floor("C01/unwrap", 3)
}

// ---- constant sets from switches.

// valueSwitchCases returns, for the first tagged switch in body whose tag selects field `field`, the case constants.
func valueSwitchCases(info *types.Info, body ast.Node, field string) (cases map[string]*ast.CaseClause, dflt *ast.CaseClause, sw *ast.SwitchStmt) {
	// the code of body, and of the helpers it was split into
	if curProgram != nil {
		if pkg := curProgram.PkgOf(body.Pos()); pkg != nil {
			for _, root := range curProgram.regionOf(pkg, body) {
				if cases, dflt, sw = valueSwitchCases1(info, root, field); sw != nil {
					return
				}
			}
			return
		}
	}
	return valueSwitchCases1(info, body, field)
}

func valueSwitchCases1(info *types.Info, body ast.Node, field string) (cases map[string]*ast.CaseClause, dflt *ast.CaseClause, sw *ast.SwitchStmt) {
	ast.Inspect(body, func(n ast.Node) bool {
		s, ok := n.(*ast.SwitchStmt)
		if !ok || s.Tag == nil || sw != nil {
			return true
		}
		f := selField(info, s.Tag)
		if f == nil || f.Name() != field {
			return true
		}
		sw = s
		cases = map[string]*ast.CaseClause{}
		for _, c := range s.Body.List {
			cc := c.(*ast.CaseClause)
			if cc.List == nil {
				dflt = cc
				continue
			}
			for _, e := range cc.List {
				if name := constName(info, e); name != "" {
					cases[name] = cc
				}
			}
		}
		return false
	})
	return
}

// typeCaseOf finds the clause of a type switch in fd handling type tname.
func typeCaseOf(info *types.Info, fd *ast.FuncDecl, tname string) *ast.CaseClause {
	roots := []ast.Node{fd.Body}
	if curProgram != nil {
		if pkg := curProgram.PkgOf(fd.Pos()); pkg != nil {
			roots = curProgram.regionOf(pkg, fd.Body) // also the helpers the function was split into
		}
	}
	for _, root := range roots {
		for _, ts := range findTypeSwitches(info, root, nil) {
			for _, cc := range ts.Clauses {
				for _, t := range ts.Types[cc] {
					if t != nil && TypeStr(t) == tname {
						return cc
					}
				}
			}
		}
	}
	return nil
}

var docBinarySQL = map[string]string{
	"TokenAnd": "AND", "TokenOr": "OR", "TokenPlus": "+", "TokenMinus": "-", "TokenStar": "*", "TokenSlash": "/", "TokenMod": "%",
	"TokenLT": "<", "TokenLE": "<=", "TokenGT": ">", "TokenGE": ">=",
	"TokenEq": "=", "TokenNE": "<>", "TokenCaseInsensitiveEq": "=", "TokenCaseInsensitiveNE": "<>",
}

// ---- C01/optable and C05/dead.

func ruleOpTables(p *Program, r *Run, only string) {
	pql := p.PQL
	info := pql.TypesInfo
	we := p.MustFunc(pql, "writeExpression")
	fn := FuncName(pql, we)
	r.Saw(fn)
	prec, _, _ := p.precedenceTable()

	// handled binary operators
	binCase := typeCaseOf(info, we, "*parser.BinaryExpr")
	if binCase == nil {
		fatalf("anchor not found: case *parser.BinaryExpr in writeExpression")
	}
	explicit, _, _ := valueSwitchCases(info, binCase, "Op")
	handled := map[string]string{}
	for k := range explicit {
		handled[k] = "explicit case"
	}
	boVal, boPos, _ := p.binaryOpTable()
	if boVal == nil {
		fatalf("anchor not found: the table of binary operators that translate one-to-one (var binaryOps, or a function TokenKind -> (string, bool))")
	}
	for k := range boVal {
		if _, ok := handled[k]; !ok {
			handled[k] = "binaryOps"
		}
	}
	// produced binary operators: parser (precedence >= 0, minus `in`) and compiler constants
	produced := map[string]string{}
	for k, v := range prec {
		if v >= 0 && k != "TokenIn" {
			produced[k] = "parser: any token with a precedence becomes BinaryExpr.Op"
		}
	}
	for _, pkg := range p.Lib() {
		for _, fd := range AllFuncs(pkg) {
			ast.Inspect(fd.Body, func(n ast.Node) bool {
				cl, ok := n.(*ast.CompositeLit)
				if !ok || TypeStr(pkg.TypesInfo.TypeOf(cl)) != "parser.BinaryExpr" {
					return true
				}
				op := litField(pkg.TypesInfo, cl, "Op")
				if op == nil {
					return true
				}
				if name := constName(pkg.TypesInfo, op); name != "" {
					produced[name] = "constant in " + FuncName(pkg, fd)
				} else if sel, ok := ast.Unparen(op).(*ast.SelectorExpr); !ok || sel.Sel.Name != "Kind" {
					produced["?"+exprStr(op)] = "non-constant operator in " + FuncName(pkg, fd)
				}
				return true
			})
		}
	}
	var ks []string
	for k := range produced {
		ks = append(ks, k)
	}
	sort.Strings(ks)
	if only == "" || only == "C01" {
		for _, k := range ks {
			_, ok := handled[k]
			r.Check(ok, "C01/optable", fmt.Sprintf("%s translates binary operator %s", fn, k), p.Pos(binCase.Pos()), handled[k]+" ("+produced[k]+")", fmt.Sprintf("a BinaryExpr with operator %s can be built (%s) but the expression writer has neither a case nor a binaryOps entry for it: it would be written as an `unhandled` placeholder", k, produced[k]))
		}
		// spelling of the generic table
		var bks []string
		for k := range boVal {
			bks = append(bks, k)
		}
		sort.Strings(bks)
		for _, k := range bks {
			want, doc := docBinarySQL[k]
			r.Check(doc && strings.EqualFold(strings.TrimSpace(boVal[k]), want), "C01/optable", fmt.Sprintf("pql.binaryOps[%s]", k), p.Pos(boPos), fmt.Sprintf("%s is spelled %q in SQL", k, want), fmt.Sprintf("operator %s is translated to %q; the SQL spelling of the same operator is %q", k, boVal[k], want))
		}
		ruleC01OpShapes(p, r)
		r.Floor("C01/optable", 30)
	}
	if only == "" || only == "C05" {
		ruleC05Dead(p, r, handled, produced)
	}
}

// ruleC01OpShapes: the explicit operator cases have the documented SQL shape (derived grammar + path facts).
func ruleC01OpShapes(p *Program, r *Run) {
	g := p.Grammar()
	we := p.MustFunc(p.PQL, "writeExpression")
	fn := FuncName(p.PQL, we)
	x := g.xParamOf(we)
	if x == nil {
		fatalf("writeExpression has no Expr parameter")
	}
	opKey := p.ObjKey(x) + ".Op"
	constVal := func(pkgScope *types.Scope, name string) string {
		c := p.constNamed(pkgScope, name)
		if c == nil {
			fatalf("anchor not found: const %s", name)
		}
		return constKey(c.Val())
	}
	var ctxKey string
	for _, f := range we.Type.Params.List {
		if TypeStr(p.PQL.TypesInfo.TypeOf(f.Type)) == "*pql.exprContext" {
			ctxKey = p.ObjKey(p.PQL.TypesInfo.Defs[f.Names[0]])
		}
	}
	joinMode := constVal(p.PQL.Types.Scope(), "joinExprMode")
	type shape struct {
		op, sqlOp string
		lowerBoth bool
		nullSafe  bool
	}
	for _, sh := range []shape{
		{"TokenEq", "=", false, true}, {"TokenNE", "<>", false, true},
		{"TokenCaseInsensitiveEq", "=", true, false}, {"TokenCaseInsensitiveNE", "<>", true, false},
	} {
		val := constVal(p.Parser.Types.Scope(), sh.op)
		// group occurrences by path family: exits are per path; approximate a path family by the set of T texts
		// seen with this operator fact, split by whether the mode is known to be join mode.
		var texts, joinTexts []string
		holes := 0
		for _, o := range g.occs {
			if o.Ev.Func != we {
				continue
			}
			f := o.St.Get(opKey)
			if f == nil || !f.HasEq || f.Eq != val {
				continue
			}
			inJoin := false
			if m := o.St.Get(ctxKey + ".mode"); m != nil && m.HasEq && m.Eq == joinMode {
				inJoin = true
			}
			switch o.Ev.Kind {
			case "T":
				if inJoin {
					joinTexts = append(joinTexts, o.Ev.Text)
				} else {
					texts = append(texts, o.Ev.Text)
				}
			case "HOLE":
				holes++
			}
		}
		key := fmt.Sprintf("%s shape of %s", fn, sh.op)
		all := strings.ToLower(strings.Join(texts, "\x00"))
		ops := map[string]bool{}
		for _, t := range append(append([]string{}, texts...), joinTexts...) {
			for _, tk := range sqlTokenize(t) {
				if tk.Kind == "op" || tk.Kind == "kwop" {
					ops[tk.Text] = true
				}
			}
		}
		var bad []string
		if len(ops) != 1 || !ops[sh.sqlOp] {
			bad = append(bad, fmt.Sprintf("SQL operators written: %v, expected only %q", keysOf(ops), sh.sqlOp))
		}
		if holes == 0 {
			bad = append(bad, "no operands are written")
		}
		if sh.nullSafe {
			// outside join mode every text family must carry coalesce( ... , FALSE)
			plain := false
			for _, t := range texts {
				if strings.TrimSpace(t) == sh.sqlOp {
					plain = true
				}
			}
			hasCoalesce := strings.Contains(all, "coalesce(") && strings.Contains(all, ", false)")
			if !hasCoalesce {
				bad = append(bad, "the comparison is not wrapped in coalesce(..., FALSE): it yields NULL instead of false when an operand is NULL")
			}
			_ = plain
			// a bare comparison (no coalesce) may only be written when join mode is known
			bareOutsideJoin := false
			for _, o := range g.occs {
				if o.Ev.Func != we || o.Ev.Kind != "T" || strings.TrimSpace(o.Ev.Text) != sh.sqlOp || o.Depth != [3]int{} {
					continue
				}
				f := o.St.Get(opKey)
				if f == nil || !f.HasEq || f.Eq != val {
					continue
				}
				m := o.St.Get(ctxKey + ".mode")
				if m == nil || !m.HasEq || m.Eq != joinMode {
					bareOutsideJoin = true
				}
			}
			if bareOutsideJoin {
				bad = append(bad, "a bare comparison (without coalesce) can be written outside join mode")
			}
		}
		if sh.lowerBoth {
			n := strings.Count(all, "lower(")
			if n != 2 {
				bad = append(bad, fmt.Sprintf("lower( is applied %d times, expected to both operands", n))
			}
		}
		r.Check(len(bad) == 0, "C01/optable", key, p.Pos(we.Pos()), "documented SQL shape", strings.Join(bad, "; "))
	}
	// unary operators
	unCase := typeCaseOf(p.PQL.TypesInfo, we, "*parser.UnaryExpr")
	if unCase != nil {
		cases, _, _ := valueSwitchCases(p.PQL.TypesInfo, unCase, "Op")
		for _, k := range []string{"TokenPlus", "TokenMinus"} {
			cc := cases[k]
			want := map[string]string{"TokenPlus": "+", "TokenMinus": "-"}[k]
			got := ""
			if cc != nil {
				ast.Inspect(cc, func(n ast.Node) bool {
					if e, ok := n.(ast.Expr); ok {
						if s, ok := constString(p.PQL.TypesInfo, e); ok {
							got += s
						}
					}
					return true
				})
			}
			r.Check(got == want, "C01/optable", fmt.Sprintf("%s sign %s", fn, k), p.Pos(unCase.Pos()), fmt.Sprintf("written as %q", want), fmt.Sprintf("the sign %s is written as %q, expected %q", k, got, want))
		}
	}
}

// ruleC05Dead: every placeholder branch is unreachable because what can be constructed is handled.
func ruleC05Dead(p *Program, r *Run, handledBin, producedBin map[string]string) {
	pql := p.PQL
	info := pql.TypesInfo
	we := p.MustFunc(pql, "writeExpression")
	// (1) Expr switch
	var exprSw *typeSwitchInfo
	for _, ts := range findTypeSwitches(info, we.Body, p.Named(p.Parser, "Expr")) {
		exprSw = ts
	}
	if exprSw == nil {
		fatalf("anchor not found: type switch over parser.Expr in writeExpression")
	}
	handledT := map[string]bool{}
	for _, ts := range exprSw.Types {
		for _, t := range ts {
			if t != nil {
				handledT[TypeStr(t)] = true
			}
		}
	}
	for _, t := range p.Implementers(p.Iface(p.Parser, "Expr")) {
		name := TypeStr(t)
		key := "pql.writeExpression handles expression kind " + name
		if name == "*parser.ParenExpr" {
			// must be excluded by path facts wherever the writer writes
			bad := false
			for _, o := range p.Grammar().occs {
				if o.Ev.Func == we && hasStr(o.Kinds, "*parser.ParenExpr") {
					bad = true
				}
			}
			r.Check(!bad, "C05/dead", key, p.Pos(exprSw.Stmt.Pos()), "excluded by path facts before the switch (parentheses are unwrapped completely)", "a *parser.ParenExpr can reach the expression switch, which has no case for it: the `unhandled expression` placeholder reaches the output")
			continue
		}
		r.Check(handledT[name], "C05/dead", key, p.Pos(exprSw.Stmt.Pos()), "has a case", name+" implements Expr but the expression writer has no case for it: the `unhandled expression` placeholder reaches the output")
	}
	// (2) operator switch of (*subquery).write vs what splitQueries stores into .op
	wr := p.MustFunc(pql, "subquery.write")
	var opSw *typeSwitchInfo
	for _, ts := range findTypeSwitches(info, wr.Body, p.Named(p.Parser, "TabularOperator")) {
		opSw = ts
	}
	if opSw == nil {
		fatalf("anchor not found: type switch over parser.TabularOperator in (*subquery).write")
	}
	handledOp := map[string]bool{}
	for _, ts := range opSw.Types {
		for _, t := range ts {
			if t != nil {
				handledOp[TypeStr(t)] = true
			}
		}
	}
	sq := p.MustFunc(pql, "splitQueries")
	var sqSw *typeSwitchInfo
	for _, ts := range findTypeSwitches(info, sq.Body, p.Named(p.Parser, "TabularOperator")) {
		sqSw = ts
	}
	if sqSw == nil {
		fatalf("anchor not found: type switch over parser.TabularOperator in splitQueries")
	}
	stored := map[string]string{}
	explicitSQ := map[string]bool{}
	storesOp := func(cc *ast.CaseClause) bool {
		found := false
		ast.Inspect(cc, func(n ast.Node) bool {
			if as, ok := n.(*ast.AssignStmt); ok && len(as.Lhs) == 1 {
				if f := selField(info, as.Lhs[0]); f != nil && TypeStr(f.Type()) == "parser.TabularOperator" {
					found = true
				}
			}
			return true
		})
		return found
	}
	for _, cc := range sqSw.Clauses {
		for _, t := range sqSw.Types[cc] {
			if t != nil {
				explicitSQ[TypeStr(t)] = true
				if storesOp(cc) {
					stored[TypeStr(t)] = "stored by its own case in splitQueries"
				}
			}
		}
	}
	if sqSw.Default != nil && storesOp(sqSw.Default) {
		for _, t := range p.Implementers(p.Iface(p.Parser, "TabularOperator")) {
			if !explicitSQ[TypeStr(t)] {
				stored[TypeStr(t)] = "stored by the default case of splitQueries"
			}
		}
	}
	var ops []string
	for k := range stored {
		ops = append(ops, k)
	}
	sort.Strings(ops)
	for _, k := range ops {
		r.Check(handledOp[k], "C05/dead", "pql.(*subquery).write handles operator "+k, p.Pos(opSw.Stmt.Pos()), "has a case ("+stored[k]+")", k+" can become a subquery's operator ("+stored[k]+") but (*subquery).write has no case for it: `SELECT NULL /* unsupported operator */` reaches the output")
	}
	// operators handled structurally by splitQueries (never stored) must exist as cases there
	for _, t := range p.Implementers(p.Iface(p.Parser, "TabularOperator")) {
		name := TypeStr(t)
		if _, ok := stored[name]; ok {
			continue
		}
		r.Check(explicitSQ[name], "C05/dead", "pql.splitQueries handles operator "+name, p.Pos(sqSw.Stmt.Pos()), "translated by its own case in splitQueries", name+" is neither stored as a subquery operator nor handled by splitQueries")
	}
	// (3) literal kinds
	litCase := typeCaseOf(info, we, "*parser.BasicLit")
	if litCase != nil {
		cases, _, _ := valueSwitchCases(info, litCase, "Kind")
		for _, k := range p.constructedKinds("BasicLit", "Kind") {
			_, ok := cases[k]
			r.Check(ok, "C05/dead", "pql.writeExpression handles literal kind "+k, p.Pos(litCase.Pos()), "has a case", "the parser builds BasicLit nodes of kind "+k+" but the writer has no case for it")
		}
	}
	// (4) unary operators
	unCase := typeCaseOf(info, we, "*parser.UnaryExpr")
	if unCase != nil {
		cases, _, _ := valueSwitchCases(info, unCase, "Op")
		for _, k := range p.constructedKinds("UnaryExpr", "Op") {
			_, ok := cases[k]
			r.Check(ok, "C05/dead", "pql.writeExpression handles sign "+k, p.Pos(unCase.Pos()), "has a case", "the parser builds UnaryExpr nodes with operator "+k+" but the writer has no case for it")
		}
	}
	// (5) binary operators (shared with C01/optable)
	var bks []string
	for k := range producedBin {
		bks = append(bks, k)
	}
	sort.Strings(bks)
	for _, k := range bks {
		_, ok := handledBin[k]
		r.Check(ok, "C05/dead", "pql.writeExpression handles binary operator "+k, p.Pos(we.Pos()), "case or binaryOps entry", "binary operator "+k+" can be constructed but is not handled: the `unhandled binary op` placeholder reaches the output")
	}
	// (6) data sources and statements
	ds := p.MustFunc(pql, "dataSourceSQL")
	// a kind is handled when some path on which the source is known to be of that kind ends without an error
	// (whatever the dispatch looks like: type switch, comma-ok assertion, helper)
	handledDS := p.kindsHandled(pql, ds, "parser.TabularDataSource")
	for _, t := range p.Implementers(p.Iface(p.Parser, "TabularDataSource")) {
		r.Check(handledDS[TypeStr(t)], "C05/dead", "pql.dataSourceSQL handles "+TypeStr(t), p.Pos(ds.Pos()), "has a case", TypeStr(t)+" is a data source without a case")
	}
	co := p.MustFunc(pql, "CompileOptions.Compile")
	handledSt := map[string]bool{}
	var stmtSwitches []*typeSwitchInfo
	for _, root := range p.regionOf(pql, co.Body) {
		stmtSwitches = append(stmtSwitches, findTypeSwitches(info, root, p.Named(p.Parser, "Statement"))...)
	}
	for _, ts := range stmtSwitches {
		for _, tl := range ts.Types {
			for _, t := range tl {
				if t != nil {
					handledSt[TypeStr(t)] = true
				}
			}
		}
	}
	for _, t := range p.Implementers(p.Iface(p.Parser, "Statement")) {
		r.Check(handledSt[TypeStr(t)], "C05/dead", "pql.(*CompileOptions).Compile handles statement "+TypeStr(t), p.Pos(co.Pos()), "has a case", TypeStr(t)+" is a statement kind without a case in Compile")
	}
	// every placeholder text sits in a default/else branch
	g := p.Grammar()
	for _, ev := range g.events {
		if ev.Kind != "T" || !strings.Contains(ev.Text, "/*") {
			continue
		}
		inDefault := false
		p.ancestors(ev.Call, ev.Func, func(anc, child ast.Node) bool {
			switch a := anc.(type) {
			case *ast.CaseClause:
				if a.List == nil {
					inDefault = true
				}
				// `case nil:` of a type switch over a node: no node at all, which a parsed tree never holds where an
				// expression is required (C07/filled) - a fallback like the default clause
				if len(a.List) == 1 && isNilIdent(p.Info, a.List[0]) {
					if _, isTS := p.Parent(p.Parent(a)).(*ast.TypeSwitchStmt); isTS {
						inDefault = true
					}
				}
			case *ast.IfStmt:
				if a.Else == child {
					inDefault = true
				}
				// if !ok { ... } after `v, ok := table[key]` / `v, ok := x.(T)`: the branch for a miss
				if un, isNot := ast.Unparen(a.Cond).(*ast.UnaryExpr); isNot && un.Op == token.NOT && ast.Node(a.Body) == child {
					if okObj := objOf(p.Info, un.X); okObj != nil {
						if fd := p.FuncAt(a.Pos()); fd != nil {
							ast.Inspect(fd.Body, func(m ast.Node) bool {
								as, isAs := m.(*ast.AssignStmt)
								if !isAs || len(as.Lhs) != 2 || len(as.Rhs) != 1 || objOf(p.Info, as.Lhs[1]) != okObj {
									return true
								}
								switch ast.Unparen(as.Rhs[0]).(type) {
								case *ast.IndexExpr, *ast.TypeAssertExpr:
									inDefault = true
								}
								return true
							})
						}
					}
				}
			}
			return !inDefault
		})
		r.Check(inDefault, "C05/dead", fmt.Sprintf("%s placeholder %q is a fallback branch", ev.FnName, ev.Text), p.Pos(ev.Call.Pos()), "written only by a default/else branch whose alternatives cover everything that can be constructed (rows above)", "an internal placeholder is written outside a default/else fallback branch: it can reach the output")
	}
	r.Floor("C05/dead", 40)
}

// constructedKinds: the token kinds the parser can store into field `field` of node type `typ`:
// the case list guarding the construction site (`case TokenA, TokenB:` ... T{field: tok.Kind}).
func (p *Program) constructedKinds(typ, field string) []string {
	pkg := p.Parser
	info := pkg.TypesInfo
	c := &kindsClient{p: p, typ: "parser." + typ, field: field, set: map[string]bool{}}
	for _, fd := range AllFuncs(pkg) {
		has := false
		ast.Inspect(fd.Body, func(n ast.Node) bool {
			if cl, ok := n.(*ast.CompositeLit); ok && TypeStr(info.TypeOf(cl)) == c.typ {
				has = true
			}
			return !has
		})
		if !has {
			continue
		}
		c.fn = FuncName(pkg, fd)
		e := NewEngine(p, pkg, fd, c)
		e.Run(nil)
	}
	var out []string
	for k := range c.set {
		out = append(out, k)
	}
	sort.Strings(out)
	return out
}

// kindsClient collects the constants a field of a node type can be constructed with: the constant written in the
// literal, or the value the path facts give the expression there (`Op: tok.Kind` under a guard on tok.Kind).
type kindsClient struct {
	BaseClient
	InlinePredicates
	p     *Program
	typ   string
	field string
	fn    string
	set   map[string]bool
}

func (c *kindsClient) Visit(e *Engine, st *State, n ast.Node) *State {
	cl, ok := n.(*ast.CompositeLit)
	if !ok || TypeStr(e.Info.TypeOf(cl)) != c.typ || !e.Reporting() {
		return nil
	}
	v := litField(e.Info, cl, c.field)
	if v == nil {
		return nil
	}
	if name := constName(e.Info, v); name != "" {
		c.set[name] = true
		return nil
	}
	if f := e.FactOf(st, v); f != nil && f.HasEq {
		if named, ok := e.Info.TypeOf(v).(*types.Named); ok {
			if name := c.p.constNameByValue(c.p.Parser, named.Obj().Name(), f.Eq); name != "" {
				c.set[name] = true
				return nil
			}
		}
	}
	c.set["?unguarded "+exprStr(v)+" in "+c.fn] = true
	return nil
}

var _ = token.NoPos

// ---- C01/builtins: the rewrite skeleton of every documented built-in, read off the derived grammar.

var docBuiltinSkeleton = map[string]string{
	"not":       "NOT H0",
	"isnull":    "H0 IS NULL",
	"isnotnull": "H0 IS NOT NULL",
	"iff":       "CASE WHEN COALESCE ( H0 , FALSE ) THEN H1 ELSE H2 END",
	"iif":       "CASE WHEN COALESCE ( H0 , FALSE ) THEN H1 ELSE H2 END",
	"strcat":    "H0 || H*",
	"tolower":   "LOWER ( H0 )",
	"toupper":   "UPPER ( H0 )",
	"now":       "CURRENT_TIMESTAMP",
	"count":     "COUNT ( )",
	"countif":   "COUNT ( ) FILTER ( WHERE H0 )",
}

// skeletonOf renders the events of fd (optionally restricted by keep) in source order as upper-case SQL tokens,
// holes as H<k> (constant argument index) or H* (loop variable).
func (g *grammar) skeletonOf(fd *ast.FuncDecl, keep func(ev *emitEvent) bool) string {
	info := g.p.PQL.TypesInfo
	var evs []*emitEvent
	for _, ev := range g.events {
		if ev.Func == fd && (keep == nil || keep(ev)) {
			evs = append(evs, ev)
		}
	}
	sort.Slice(evs, func(i, j int) bool {
		return evs[i].Call.Pos() < evs[j].Call.Pos() || evs[i].Call.Pos() == evs[j].Call.Pos() && evs[i].ID < evs[j].ID
	})
	var out []string
	for _, ev := range evs {
		switch ev.Kind {
		case "T":
			for _, t := range sqlTokenize(ev.Text) {
				out = append(out, strings.ToUpper(t.Text))
			}
		case "HOLE", "DISPATCH":
			h := "H*"
			// the argument itself, or a single-assignment name for it (cond := x.Args[0])
			if ix, ok := ast.Unparen(g.p.DefExpr(ev.Arg)).(*ast.IndexExpr); ok {
				if v, ok := constInt(info, ix.Index); ok {
					h = fmt.Sprintf("H%d", v)
				}
			}
			out = append(out, h)
		case "RAW":
			out = append(out, "RAW")
		case "Q":
			out = append(out, "Q")
		case "S":
			out = append(out, "S")
		}
	}
	return strings.Join(out, " ")
}

// separatorSkipsFirst: in fd, the constant sep is only written where the index of a loop over all arguments is known
// to be at least 1, and the hole written in that loop is the argument at that index.
func (g *grammar) separatorSkipsFirst(fd *ast.FuncDecl, sep string) bool {
	info := g.p.Info
	// the loop: for i := range x.Args / for i, a := range x.Args / for i := 0; i < len(x.Args); i++
	var idx types.Object
	ast.Inspect(fd.Body, func(n ast.Node) bool {
		switch l := n.(type) {
		case *ast.RangeStmt:
			if f := selField(info, l.X); f != nil && f.Name() == "Args" && l.Key != nil {
				idx = objOf(info, l.Key)
			}
		case *ast.ForStmt:
			if as, ok := l.Init.(*ast.AssignStmt); ok && len(as.Lhs) == 1 {
				if o := objOf(info, as.Lhs[0]); o != nil {
					args := &ast.SelectorExpr{}
					found := false
					ast.Inspect(l.Cond, func(m ast.Node) bool {
						if sel, ok := m.(*ast.SelectorExpr); ok && sel.Sel.Name == "Args" {
							args, found = sel, true
						}
						return true
					})
					if found && isCountedLoopOver(info, l, o, args) {
						idx = o
					}
				}
			}
		}
		return true
	})
	if idx == nil {
		return false
	}
	ik := g.p.ObjKey(idx)
	seen := false
	for _, o := range g.occs {
		if o.Ev.Func != fd || o.Ev.Kind != "T" || strings.ToUpper(strings.TrimSpace(o.Ev.Text)) != sep {
			continue
		}
		seen = true
		f := o.St.Get(ik)
		if f == nil || f.Lo == nil || *f.Lo < 1 {
			return false
		}
	}
	return seen
}

func ruleC01Builtins(p *Program, r *Run) {
	g := p.Grammar()
	have := map[string]bool{}
	for _, row := range g.kf {
		have[row.Name] = true
		want, documented := docBuiltinSkeleton[row.Name]
		if !documented {
			r.Note("built-in %q is not in the documented table; no skeleton to compare", row.Name)
			continue
		}
		got := g.skeletonOf(row.Decl, nil)
		// one loop over all arguments that writes the separator in front of every argument but the first is the same
		// text as "first argument, then separator + argument for the rest"
		if strings.HasSuffix(want, " H*") && strings.HasPrefix(want, "H0 ") {
			sep := strings.TrimSuffix(strings.TrimPrefix(want, "H0 "), " H*")
			if got == sep+" H*" && g.separatorSkipsFirst(row.Decl, sep) {
				got = want
			}
		}
		key := fmt.Sprintf("pql.knownFunctions[%q] rewrite", row.Name)
		r.Saw(FuncName(p.PQL, row.Decl))
		r.Check(got == want, "C01/builtins", key, p.Pos(row.Decl.Pos()), "rewrite skeleton: "+want, fmt.Sprintf("%s(...) is rewritten as `%s`; the documented equivalent is `%s` (arguments each used once, in order)", row.Name, got, want))
	}
	var names []string
	for n := range docBuiltinSkeleton {
		names = append(names, n)
	}
	sort.Strings(names)
	for _, n := range names {
		if !have[n] {
			r.Fail("C01/builtins", fmt.Sprintf("pql.knownFunctions[%q] rewrite", n), "-", "documented built-in "+n+" has no rewrite: it is passed through under its PQL name")
		}
	}
	// every other function: name(args...) with the arguments in order
	we := p.MustFunc(p.PQL, "writeExpression")
	generic := map[int]bool{}
	for _, o := range g.occs {
		if o.Ev.Func == we && len(o.Kinds) == 1 && o.Kinds[0] == "*parser.CallExpr:generic" {
			generic[o.Ev.ID] = true
		}
	}
	got := g.skeletonOf(we, func(ev *emitEvent) bool { return generic[ev.ID] })
	okGeneric := got == "RAW ( , H* )"
	// the hole iterates over x.Args
	overArgs := false
	for _, ev := range g.events {
		if ev.Func == we && generic[ev.ID] && ev.Kind == "HOLE" {
			if o := objOf(p.PQL.TypesInfo, ev.Arg); o != nil {
				ast.Inspect(we.Body, func(n ast.Node) bool {
					if rs, ok := n.(*ast.RangeStmt); ok && rs.Value != nil && objOf(p.PQL.TypesInfo, rs.Value) == o {
						if f := selField(p.PQL.TypesInfo, rs.X); f != nil && f.Name() == "Args" {
							overArgs = true
						}
					}
					return true
				})
			}
		}
	}
	r.Check(okGeneric && overArgs, "C01/builtins", "pql.writeExpression generic call", p.Pos(we.Pos()), "name ( arg , arg ... ) over x.Args in order", fmt.Sprintf("a function that is not a built-in is written as `%s` (ranging over x.Args: %v); documented: passed through by name with all its arguments in order", got, overArgs))
	r.Floor("C01/builtins", 12)
}

// coverClient records, for the returns of a function that do not fail, which dynamic types its interface-typed
// parameter is known to have there.
type coverClient struct {
	BaseClient
	InlinePure
	param   types.Object
	handled map[string]bool
}

func (c *coverClient) Return(e *Engine, st *State, ret *ast.ReturnStmt) {
	if e.Lit != nil {
		return
	}
	if ret != nil && len(ret.Results) > 0 {
		last := ret.Results[len(ret.Results)-1]
		if TypeStr(e.Info.TypeOf(last)) == "error" && knownNonNilError(e, st, last) {
			return
		}
	}
	if f := st.Get(e.objKey(c.param)); f != nil {
		for _, t := range f.TyIn {
			c.handled[t] = true
		}
	}
}

// kindsHandled: the dynamic types of fd's parameter of (interface) type typ for which fd has a non-failing path.
func (p *Program) kindsHandled(pkg *packages.Package, fd *ast.FuncDecl, typ string) map[string]bool {
	c := &coverClient{handled: map[string]bool{}}
	for _, f := range fd.Type.Params.List {
		if TypeStr(p.Info.TypeOf(f.Type)) == typ && len(f.Names) == 1 {
			c.param = p.Info.Defs[f.Names[0]]
		}
	}
	if c.param == nil {
		return c.handled
	}
	e := NewEngine(p, pkg, fd, c)
	e.Run(nil)
	return c.handled
}

// binaryOpTable: the operators that are written as `left OP right` with a fixed SQL spelling - the package-level
// map[parser.TokenKind]string, or a function func(parser.TokenKind) (string, bool) that switches on its parameter
// and returns a constant for each case. Returns operator constant name -> SQL text, the position of the table and
// (for the function form) the function.
func (p *Program) binaryOpTable() (map[string]string, token.Pos, *types.Func) {
	if !p.binOpDone {
		p.binOpDone = true
		p.binOpVals, p.binOpPos, p.binOpFn = p.findBinaryOpTable()
	}
	return p.binOpVals, p.binOpPos, p.binOpFn
}

func (p *Program) findBinaryOpTable() (map[string]string, token.Pos, *types.Func) {
	pkg := p.PQL
	info := pkg.TypesInfo
	for _, f := range pkg.Syntax {
		for _, d := range f.Decls {
			gd, ok := d.(*ast.GenDecl)
			if !ok || gd.Tok != token.VAR {
				continue
			}
			for _, sp := range gd.Specs {
				vs := sp.(*ast.ValueSpec)
				for i, n := range vs.Names {
					if i >= len(vs.Values) {
						continue
					}
					mt, isMap := info.TypeOf(n).Underlying().(*types.Map)
					if !isMap || TypeStr(mt.Key()) != "parser.TokenKind" {
						continue
					}
					structRows := StructOf(mt.Elem()) != nil
					if TypeStr(mt.Elem()) != "string" && !structRows {
						continue
					}
					cl, ok := ast.Unparen(vs.Values[i]).(*ast.CompositeLit)
					if !ok {
						continue
					}
					got := map[string]string{}
					for _, el := range cl.Elts {
						if kv, ok := el.(*ast.KeyValueExpr); ok {
							if v, isS := constString(info, kv.Value); isS {
								got[constName(info, kv.Key)] = v
							} else if row, isRow := ast.Unparen(kv.Value).(*ast.CompositeLit); isRow && structRows {
								// a row of several columns: the SQL spelling is its first constant string
								for _, fe := range row.Elts {
									val := fe
									if fkv, ok := fe.(*ast.KeyValueExpr); ok {
										val = fkv.Value
									}
									if v, isS := constString(info, val); isS {
										got[constName(info, kv.Key)] = v
										break
									}
								}
							}
						}
					}
					if len(got) > 0 {
						return got, cl.Pos(), nil
					}
				}
			}
		}
	}
	for _, fd := range AllFuncs(pkg) {
		fn := FuncObj(pkg, fd)
		if fn == nil {
			continue
		}
		sig := fn.Type().(*types.Signature)
		if sig.Recv() != nil || sig.Params().Len() != 1 || TypeStr(sig.Params().At(0).Type()) != "parser.TokenKind" || sig.Results().Len() != 2 ||
			TypeStr(sig.Results().At(0).Type()) != "string" || TypeStr(sig.Results().At(1).Type()) != "bool" {
			continue
		}
		if len(fd.Type.Params.List) != 1 || len(fd.Type.Params.List[0].Names) != 1 || len(fd.Body.List) != 1 {
			continue
		}
		param := info.Defs[fd.Type.Params.List[0].Names[0]]
		sw, ok := fd.Body.List[0].(*ast.SwitchStmt)
		if !ok || sw.Init != nil || sw.Tag == nil || objOf(info, sw.Tag) != param {
			continue
		}
		got := map[string]string{}
		okShape := true
		for _, cs := range sw.Body.List {
			cc := cs.(*ast.CaseClause)
			if len(cc.Body) != 1 {
				okShape = false
				break
			}
			ret, isRet := cc.Body[0].(*ast.ReturnStmt)
			if !isRet || len(ret.Results) != 2 {
				okShape = false
				break
			}
			found := constOf(info, ret.Results[1])
			if cc.List == nil {
				// the miss: ("", false)
				if found == nil || found.String() != "false" {
					okShape = false
				}
				continue
			}
			v, isS := constString(info, ret.Results[0])
			if !isS || found == nil || found.String() != "true" {
				okShape = false
				break
			}
			for _, ce := range cc.List {
				k := constName(info, ce)
				if k == "" {
					okShape = false
				}
				got[k] = v
			}
		}
		if okShape && len(got) > 0 {
			return got, fd.Pos(), fn
		}
	}
	return nil, token.NoPos, nil
}
