package pc

import (
	"fmt"
	"go/ast"
	"go/token"
	"go/types"
	"strings"
)

// Inliner is implemented by clients that want calls to (small, module-local) helper functions interpreted
// in place, with the parameters bound to the arguments: an extracted helper is then as transparent to
// the rule as the statements it was extracted from.
type Inliner interface {
	Inline(e *Engine, call *ast.CallExpr, callee *types.Func, decl *ast.FuncDecl) bool
}

// Frame is one helper call being interpreted in place.
type Frame struct {
	Call    *ast.CallExpr
	Decl    *ast.FuncDecl
	Fn      *types.Func
	Bind    map[types.Object]ast.Expr // parameter (never reassigned in the helper) -> argument expression of the caller
	results []*ast.Ident
	rets    []*State
}

const maxInlineDepth = 3

// Frames returns the stack of in-place helper calls (outermost first).
func (e *Engine) Frames() []*Frame { return e.frames }

// FrameKey identifies the current in-place call context ("" at top level).
func (e *Engine) FrameKey() string {
	if len(e.frames) == 0 {
		return ""
	}
	var parts []string
	for _, f := range e.frames {
		ps := e.P.Fset.Position(f.Call.Pos())
		parts = append(parts, fmt.Sprintf("%s@%d:%d", fnName(f.Fn), ps.Line, ps.Column))
	}
	return strings.Join(parts, ">")
}

// CurFunc is the declaration whose statements are being interpreted right now (a helper, or the root).
func (e *Engine) CurFunc() *ast.FuncDecl {
	if n := len(e.frames); n > 0 {
		return e.frames[n-1].Decl
	}
	return e.Func
}

// closureTarget: the call goes through a local variable that was assigned a function literal exactly once
// (push := func(child Node) {...}) and the client wants it interpreted in place. Returns a function object and
// declaration standing for the literal.
func (e *Engine) closureTarget(call *ast.CallExpr) (*types.Func, *ast.FuncDecl) {
	il, ok := e.Client.(Inliner)
	if !ok || e.Lit != nil || len(e.frames) >= maxInlineDepth {
		return nil, nil
	}
	id, ok := ast.Unparen(call.Fun).(*ast.Ident)
	if !ok {
		return nil, nil
	}
	obj, isVar := objOf(e.Info, id).(*types.Var)
	if !isVar || obj.IsField() || obj.Pkg() == nil || obj.Parent() == obj.Pkg().Scope() || !e.P.neverReassigned(obj) {
		return nil, nil
	}
	lit, ok := ast.Unparen(e.P.DefExpr(id)).(*ast.FuncLit)
	if !ok {
		return nil, nil
	}
	sig, ok := e.Info.TypeOf(lit).(*types.Signature)
	if !ok || sig.Variadic() || sig.Params().Len() != len(call.Args) {
		return nil, nil
	}
	if e.P.closureDecls == nil {
		e.P.closureDecls = map[*ast.FuncLit]*ast.FuncDecl{}
		e.P.closureFuncs = map[*ast.FuncLit]*types.Func{}
	}
	decl := e.P.closureDecls[lit]
	if decl == nil {
		decl = &ast.FuncDecl{Name: &ast.Ident{Name: id.Name, NamePos: lit.Pos()}, Type: lit.Type, Body: lit.Body}
		e.P.closureDecls[lit] = decl
		e.P.closureFuncs[lit] = types.NewFunc(lit.Pos(), obj.Pkg(), id.Name, sig)
	}
	for _, f := range e.frames {
		if f.Decl == decl {
			return nil, nil
		}
	}
	// the literal must not call itself through the variable
	self := false
	ast.Inspect(lit.Body, func(n ast.Node) bool {
		if c, ok := n.(*ast.CallExpr); ok && objOf(e.Info, c.Fun) == types.Object(obj) {
			self = true
		}
		return !self
	})
	if self {
		return nil, nil
	}
	fn := e.P.closureFuncs[lit]
	if !il.Inline(e, call, fn, decl) {
		return nil, nil
	}
	return fn, decl
}

// inlineTarget decides whether call is interpreted in place, and returns the callee's declaration.
func (e *Engine) inlineTarget(call *ast.CallExpr, callee *types.Func) *ast.FuncDecl {
	il, ok := e.Client.(Inliner)
	if !ok || callee == nil || e.Lit != nil {
		return nil
	}
	decl, _ := e.P.DeclOf(callee)
	if decl == nil || decl.Body == nil || decl == e.Func || len(e.frames) >= maxInlineDepth {
		return nil
	}
	for _, f := range e.frames {
		if f.Decl == decl {
			return nil
		}
	}
	sig := callee.Type().(*types.Signature)
	if sig.RecvTypeParams().Len() > 0 {
		return nil
	}
	if sig.Variadic() {
		// the fixed parameters are bound; nothing is known about the variadic one
		if len(call.Args) < sig.Params().Len()-1 {
			return nil
		}
	} else if sig.Params().Len() != len(call.Args) {
		// f(g()) with g returning all of f's arguments
		if e.forwarded(call, sig) == nil {
			return nil
		}
	}
	if sig.Recv() != nil {
		// only method calls through a selector on a value (not method expressions or interface calls)
		sel, ok := ast.Unparen(call.Fun).(*ast.SelectorExpr)
		if !ok {
			return nil
		}
		s, ok := e.Info.Selections[sel]
		if !ok || s.Kind() != types.MethodVal {
			return nil
		}
		if _, isIface := s.Recv().Underlying().(*types.Interface); isIface {
			return nil
		}
	}
	if !il.Inline(e, call, callee, decl) {
		return nil
	}
	return decl
}

// synthetic identifiers standing for the results of an in-place call
func (e *Engine) resultIdents(call *ast.CallExpr, callee *types.Func, decl *ast.FuncDecl) []*ast.Ident {
	if ids, ok := e.inlined[call]; ok {
		return ids
	}
	var ids []*ast.Ident
	sig := callee.Type().(*types.Signature)
	for i := 0; i < sig.Results().Len(); i++ {
		id := &ast.Ident{NamePos: call.Pos(), Name: fmt.Sprintf("ret%d$%s", i, callee.Name())}
		v := types.NewVar(call.Pos(), callee.Pkg(), id.Name, sig.Results().At(i).Type())
		e.P.synthDefs(id, v)
		ids = append(ids, id)
	}
	e.inlined[call] = ids
	return ids
}

func (p *Program) synthDefs(id *ast.Ident, v *types.Var) { p.Info.Defs[id] = v }

// inlineCall interprets the body of decl for the call (arguments are already evaluated).
func (e *Engine) inlineCall(call *ast.CallExpr, callee *types.Func, decl *ast.FuncDecl, in []*State) []*State {
	e.noteBody(decl.Body)
	fr := &Frame{Call: call, Decl: decl, Fn: callee}
	fr.results = e.resultIdents(call, callee, decl)
	var lhs, rhs []ast.Expr
	if decl.Recv != nil && len(decl.Recv.List) == 1 && len(decl.Recv.List[0].Names) == 1 {
		if sel, ok := ast.Unparen(call.Fun).(*ast.SelectorExpr); ok && decl.Recv.List[0].Names[0].Name != "_" {
			lhs = append(lhs, decl.Recv.List[0].Names[0])
			rhs = append(rhs, sel.X)
		}
	}
	args := call.Args
	if inner := e.forwarded(call, callee.Type().(*types.Signature)); inner != nil {
		// f(g()): the parameters are bound to the result variables of the inner call
		args = nil
		for _, id := range e.CallResults(inner) {
			args = append(args, id)
		}
	}
	i := 0
	for _, f := range decl.Type.Params.List {
		if len(f.Names) == 0 {
			i++
			continue
		}
		if _, variadic := f.Type.(*ast.Ellipsis); variadic {
			break
		}
		for _, n := range f.Names {
			if n.Name != "_" && i < len(args) {
				lhs = append(lhs, n)
				rhs = append(rhs, args[i])
			}
			i++
		}
	}
	fr.Bind = map[types.Object]ast.Expr{}
	for j, l := range lhs {
		if o := objOf(e.Info, l); o != nil && e.P.neverReassigned(o) {
			fr.Bind[o] = rhs[j]
		}
	}
	synth := &ast.ExprStmt{X: call}
	// parameters are bound one by one (like p := arg): the arguments are caller expressions, so a later
	// binding cannot see an earlier parameter.
	in = e.hookEach(in, func(st *State) *State {
		e.bindingParams = true // a parameter lives shorter than anything the caller can name
		for j := range lhs {
			st = e.assignCore(st, lhs[j:j+1], rhs[j:j+1], token.DEFINE, synth, nil)
		}
		e.bindingParams = false
		// named results start at their zero values
		for _, r := range namedResults(decl) {
			st = e.killTarget(st, r)
			st = e.setZero(st, r)
		}
		return st
	})
	e.frames = append(e.frames, fr)
	savedTargets := e.targets
	e.targets = nil
	out := e.block(decl.Body, in)
	e.targets = savedTargets
	e.frames = e.frames[:len(e.frames)-1]
	out = append(out, fr.rets...)
	// deferred calls of the helper run at its return: their effects are taken from the summaries
	hasDefer := false
	ast.Inspect(decl.Body, func(n ast.Node) bool {
		if _, ok := n.(*ast.DeferStmt); ok {
			hasDefer = true
		}
		return true
	})
	if hasDefer {
		out = e.hookEach(out, func(st *State) *State { return e.callEffects(st, call, callee, "") })
	}
	return e.pruneScope(out, decl)
}

// inlineReturn handles a return statement of a helper interpreted in place.
func (e *Engine) inlineReturn(s *ast.ReturnStmt, in []*State) {
	fr := e.frames[len(e.frames)-1]
	if named := namedResults(fr.Decl); len(s.Results) == 0 && len(named) == len(fr.results) && len(named) > 0 {
		// bare return: the named results are the values
		lhs := make([]ast.Expr, len(fr.results))
		rhs := make([]ast.Expr, len(named))
		for i := range fr.results {
			lhs[i], rhs[i] = fr.results[i], named[i]
		}
		in = e.hookEach(in, func(st *State) *State { return e.assignCore(st, lhs, rhs, token.ASSIGN, s, nil) })
		fr.rets = append(fr.rets, in...)
		return
	}
	if len(s.Results) == 0 || len(s.Results) != len(fr.results) {
		for _, r := range s.Results {
			in = e.expr(r, in)
		}
		if len(s.Results) != 0 {
			// `return f()` forwarding several values: nothing is known about them
			in = e.hookEach(in, func(st *State) *State {
				for _, r := range fr.results {
					st = e.killTarget(st, r)
				}
				return st
			})
		}
		fr.rets = append(fr.rets, in...)
		return
	}
	lhs := make([]ast.Expr, len(fr.results))
	for i, r := range fr.results {
		lhs[i] = r
	}
	in = e.assign(lhs, s.Results, token.ASSIGN, s, in)
	fr.rets = append(fr.rets, in...)
}

// pruneInlined forgets the synthetic result variables of in-place calls made inside statement s.
func (e *Engine) pruneInlined(s ast.Node, in []*State) []*State {
	if len(e.inlined) == 0 || s == nil || len(in) == 0 {
		return in
	}
	var objs []types.Object
	for call, ids := range e.inlined {
		if call.Pos() >= s.Pos() && call.End() <= s.End() {
			for _, id := range ids {
				if id.NamePos == call.Pos() {
					if o := e.Info.Defs[id]; o != nil {
						objs = append(objs, o)
					}
				}
			}
		}
	}
	if len(objs) == 0 {
		return in
	}
	out := make([]*State, 0, len(in))
	for _, st := range in {
		for _, o := range objs {
			st = st.killObj(o)
		}
		out = append(out, st)
	}
	return compact(out)
}

// InlinePure is a mixin: helpers that write nothing (transitively) are interpreted in place.
type InlinePure struct{}

func (InlinePure) Inline(e *Engine, call *ast.CallExpr, callee *types.Func, decl *ast.FuncDecl) bool {
	if inlineClosure(e, decl) {
		return true
	}
	return e.pureModuleFunc(callee) && smallBody(decl)
}

// InlineAll is a mixin: every small module helper is interpreted in place.
type InlineAll struct{}

func (InlineAll) Inline(e *Engine, call *ast.CallExpr, callee *types.Func, decl *ast.FuncDecl) bool {
	return smallBody(decl)
}

// inlineClosure: a local closure is always worth interpreting in place (what it does to the variables it captures
// happens exactly there).
func inlineClosure(e *Engine, decl *ast.FuncDecl) bool {
	return e.P.isClosureDecl(decl) && smallBody(decl)
}

func (e *Engine) pureModuleFunc(fn *types.Func) bool {
	sums := e.P.Summaries()
	w, ok := sums.Writes[fn]
	if !ok {
		w, ok = sums.Writes[fn.Origin()]
	}
	return ok && !w.All && !w.Index && len(w.Fields) == 0 && len(w.Globals) == 0
}

// smallBody bounds the work of in-place interpretation: at most 60 statements and no loops nested deeper than 1.
func smallBody(decl *ast.FuncDecl) bool {
	n := 0
	ast.Inspect(decl.Body, func(x ast.Node) bool {
		if _, ok := x.(ast.Stmt); ok {
			n++
		}
		return true
	})
	return n <= 60
}

// ResolveExpr looks through names: a parameter of a helper interpreted in place stands for its argument, a
// single-assignment temporary for its definition. The result is an expression of the same value.
func (e *Engine) ResolveExpr(x ast.Expr) ast.Expr {
	for i := 0; i < 12; i++ {
		x = ast.Unparen(x)
		id, ok := x.(*ast.Ident)
		if !ok {
			return x
		}
		o := objOf(e.Info, id)
		if o == nil {
			return x
		}
		var bound ast.Expr
		for j := len(e.frames) - 1; j >= 0; j-- {
			if a, ok := e.frames[j].Bind[o]; ok {
				bound = a
				break
			}
		}
		if bound != nil {
			x = bound
			continue
		}
		if d := e.P.DefOf(x); d != nil {
			x = d
			continue
		}
		return x
	}
	return x
}

// flattenConcat splits a string concatenation a + b + c into its operands (names looked through).
func (e *Engine) flattenConcat(x ast.Expr, out []ast.Expr, depth int) []ast.Expr {
	x = e.ResolveExpr(x)
	if b, ok := x.(*ast.BinaryExpr); ok && b.Op == token.ADD && depth < 16 {
		if t, ok := e.Info.TypeOf(b).Underlying().(*types.Basic); ok && t.Info()&types.IsString != 0 {
			if tv, isConst := e.Info.Types[b]; !isConst || tv.Value == nil {
				out = e.flattenConcat(b.X, out, depth+1)
				return e.flattenConcat(b.Y, out, depth+1)
			}
		}
	}
	return append(out, x)
}

// ResolveDeep is ResolveExpr applied to every sub-expression.
func (e *Engine) ResolveDeep(x ast.Expr) ast.Expr {
	return e.P.resolveDeep(x, 0, e.ResolveExpr)
}

func (e *Engine) isResultIdent(id *ast.Ident) bool {
	return strings.HasPrefix(id.Name, "ret") && strings.Contains(id.Name, "$")
}

func namedResults(decl *ast.FuncDecl) []*ast.Ident {
	var ids []*ast.Ident
	if decl.Type.Results == nil {
		return nil
	}
	for _, f := range decl.Type.Results.List {
		ids = append(ids, f.Names...)
	}
	return ids
}

// forwarded: for a call f(g()) whose single argument supplies all of f's parameters, the inner call.
func (e *Engine) forwarded(call *ast.CallExpr, sig *types.Signature) *ast.CallExpr {
	if len(call.Args) != 1 || sig.Params().Len() < 2 || sig.Variadic() {
		return nil
	}
	inner, ok := ast.Unparen(call.Args[0]).(*ast.CallExpr)
	if !ok {
		return nil
	}
	if t, ok := e.Info.TypeOf(inner).(*types.Tuple); ok && t.Len() == sig.Params().Len() {
		return inner
	}
	return nil
}

// CallResults returns variables standing for the results of a call (created on demand): a client can attach facts or
// tags to the results of a call that is not interpreted in place, and they flow on like any other value.
func (e *Engine) CallResults(call *ast.CallExpr) []*ast.Ident {
	if ids, ok := e.inlined[call]; ok {
		return ids
	}
	var ids []*ast.Ident
	name := "call"
	var pkg *types.Package
	if f := Callee(e.Info, call); f != nil {
		name, pkg = f.Name(), f.Pkg()
	}
	var ts []types.Type
	switch t := e.Info.TypeOf(call).(type) {
	case *types.Tuple:
		for i := 0; i < t.Len(); i++ {
			ts = append(ts, t.At(i).Type())
		}
	case nil:
	default:
		ts = append(ts, t)
	}
	for i, t := range ts {
		id := &ast.Ident{NamePos: call.Pos(), Name: fmt.Sprintf("ret%d$%s", i, name)}
		e.P.synthDefs(id, types.NewVar(call.Pos(), pkg, id.Name, t))
		ids = append(ids, id)
	}
	e.inlined[call] = ids
	return ids
}

// InlinePredicates is a mixin: small side-effect-free helpers that compute a boolean or a simple value from their
// arguments (isKeyword(tok, "asc"), isIdentStart(c), atEOF()) are interpreted in place, so the facts their result
// stands for are known to the rule. Functions whose call results rules look up as atoms are left alone.
type InlinePredicates struct{}

var atomFunctions = map[string]bool{"isNotFound": true, "IsInteger": true, "IsValid": true, "canAttachSort": true, "isAlpha": true, "isDigit": true, "isHexDigit": true, "operatorPrecedence": true}

func (InlinePredicates) Inline(e *Engine, call *ast.CallExpr, callee *types.Func, decl *ast.FuncDecl) bool {
	if inlineClosure(e, decl) {
		return true
	}
	if atomFunctions[fnName(callee)] || !e.pureModuleFunc(callee) || !smallBody(decl) {
		return false
	}
	sig := callee.Type().(*types.Signature)
	if sig.Results().Len() == 0 {
		return false
	}
	for i := 0; i < sig.Results().Len(); i++ {
		if _, basic := sig.Results().At(i).Type().Underlying().(*types.Basic); !basic {
			return false
		}
	}
	return true
}

// isClosureDecl: decl stands for a local function literal (see closureTarget).
func (p *Program) isClosureDecl(decl *ast.FuncDecl) bool {
	for _, d := range p.closureDecls {
		if d == decl {
			return true
		}
	}
	return false
}
