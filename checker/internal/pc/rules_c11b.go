package pc

import (
	"fmt"
	"go/ast"
	"go/token"
	"go/types"
	"os"
	"sort"
	"strconv"
	"strings"
)

// ---- C11 decided on path states.
//
// parser.Walk is interpreted with its helpers in place. One iteration of the worklist loop pops a node, dispatches on
// its dynamic type, calls the visitor and pushes children. Every list of nodes (the worklist itself, a list of
// children a helper builds and hands back, the arguments of a variadic push helper) is followed as a multiset of
// entries "field path of the popped node". At the back edge of the loop each path state says: which type the node
// has, how often the visitor was called and with what, what it answered on this path, and what the iteration
// added to the worklist. The obligations of C11 are read off those states - wherever the type switch lives and
// however the pushes are spelled.

type pushEntry struct {
	key  string // field path relative to the popped node: "X", "Cols[*]", "Props[*].Value"; "[?]" = not every element
	kind string // "ptr": the field is a pointer; "iface": an interface value
	nn   string // "1": known non-nil where it was added to the list
	typ  string // static type of the field
	at   string // the call that added it (an entry added again by the same call in a loop is the same entry)
}

const (
	listEmpty   = "-"
	listUnknown = "?"
)

func encodeEntries(es []pushEntry) string {
	if len(es) == 0 {
		return listEmpty
	}
	var parts []string
	for _, x := range es {
		parts = append(parts, x.key+"\x1e"+x.kind+"\x1e"+x.nn+"\x1e"+x.typ+"\x1e"+x.at)
	}
	sort.Strings(parts)
	// the same call adding the same path again (a loop) is one entry
	var uniq []string
	for i, p := range parts {
		if i == 0 || p != parts[i-1] {
			uniq = append(uniq, p)
		}
	}
	return strings.Join(uniq, "\x1f")
}

func decodeEntries(s string) ([]pushEntry, bool) {
	switch s {
	case "", listUnknown:
		return nil, false
	case listEmpty:
		return nil, true
	}
	var out []pushEntry
	for _, p := range strings.Split(s, "\x1f") {
		f := strings.Split(p, "\x1e")
		if len(f) != 5 {
			return nil, false
		}
		out = append(out, pushEntry{f[0], f[1], f[2], f[3], f[4]})
	}
	return out, true
}

type walkSem struct {
	BaseClient
	p         *Program
	fd        *ast.FuncDecl
	fn        string
	nodeIface *types.Interface
	nodeT     types.Type
	visitObj  types.Object
	rootObj   types.Object
	mainLoop  ast.Stmt
	optional  map[string]string
	seen      map[string]bool   // case type -> some iteration for it reached the back edge
	need      map[string]string // dynamic type that can reach the worklist -> how
	structs   map[string]types.Type
	caseTypes map[string]bool // types named in a type switch over a node in Walk or a function it calls
	agg       map[string]*sliceAgg
	aggOrder  []string
	panicBad  map[*ast.CallExpr]int // calls that end the walk, reached in a state that is not the "no such node type" fallback
	panicSeen map[*ast.CallExpr]int
}

// sliceAgg: how the iterations for one node type treat one slice-valued child field, over all path states (a state in
// which the loop over the slice ran zero times shows no push).
type sliceAgg struct {
	once, none, multi, partial int
	fk, how                    string
}

func (c *walkSem) note(key, fk, how string, n int, partial bool) {
	a := c.agg[key]
	if a == nil {
		a = &sliceAgg{fk: fk, how: how}
		c.agg[key] = a
		c.aggOrder = append(c.aggOrder, key)
	}
	switch {
	case partial:
		a.partial++
	case n == 0:
		a.none++
	case n == 1:
		a.once++
	default:
		a.multi++
	}
}

func (c *walkSem) isNodeSlice(t types.Type) bool {
	if t == nil {
		return false
	}
	sl, ok := t.Underlying().(*types.Slice)
	if !ok {
		return false
	}
	if tp, isTP := sl.Elem().(*types.TypeParam); isTP {
		return types.Implements(tp.Constraint(), c.nodeIface) || types.Identical(tp.Constraint().Underlying(), c.nodeIface)
	}
	return types.Identical(sl.Elem(), c.nodeT)
}

// Inline: every function of the parser package that Walk's region calls.
func (c *walkSem) Inline(e *Engine, call *ast.CallExpr, callee *types.Func, decl *ast.FuncDecl) bool {
	if callee.Pkg() == nil || callee.Pkg().Path() != PathParser {
		return false
	}
	if ok, _ := c.p.pushAllHelperG(callee); ok {
		return false // summarised: adds every (non-nil) element of its second argument
	}
	n := 0
	ast.Inspect(decl.Body, func(x ast.Node) bool {
		if _, ok := x.(ast.Stmt); ok {
			n++
		}
		return true
	})
	return n <= 600
}

func (c *walkSem) listKey(e *Engine, x ast.Expr) string {
	if id, ok := ast.Unparen(x).(*ast.Ident); ok {
		if o := objOf(e.Info, id); o != nil && c.isNodeSlice(o.Type()) {
			return "list:" + e.objKey(o)
		}
	}
	return ""
}

// relKey: the canonical path k relative to the popped node, index variables replaced by * (idxFull) or ?.
func (c *walkSem) relKey(st *State, k string, idxFull bool) string {
	cur := st.Ext("cur")
	rest := k
	switch {
	case cur != "" && strings.HasPrefix(k, "assert("+cur+","):
		if i := strings.Index(k, ")."); i >= 0 {
			rest = k[i+2:]
		} else if strings.HasSuffix(k, ")") {
			rest = "<node>"
		}
	case cur != "" && k == cur:
		rest = "<node>"
	case cur != "" && strings.HasPrefix(k, cur+"."):
		rest = k[len(cur)+1:]
	default:
		return "abs:" + k
	}
	// index parts
	var sb strings.Builder
	for i := 0; i < len(rest); i++ {
		if rest[i] != '[' {
			sb.WriteByte(rest[i])
			continue
		}
		j := strings.IndexByte(rest[i:], ']')
		if j < 0 {
			sb.WriteString(rest[i:])
			break
		}
		if idxFull {
			sb.WriteString("[*]")
		} else {
			sb.WriteString("[?]")
		}
		i += j
	}
	return sb.String()
}

// fullLoop: x (with temporaries looked through) is S[i] inside a loop of the current function that runs i over all
// indices of S, or the value variable of a range over S. Returns S.
func (c *walkSem) fullLoop(e *Engine, x ast.Expr) (ast.Expr, bool) {
	info := e.Info
	if id, ok := ast.Unparen(x).(*ast.Ident); ok {
		o := objOf(info, id)
		var found ast.Expr
		for n := e.P.Parent(id); n != nil; n = e.P.Parent(n) {
			if rs, ok := n.(*ast.RangeStmt); ok && rs.Value != nil && objOf(info, rs.Value) == o && o != nil {
				found = rs.X
				break
			}
			if _, isFn := n.(*ast.FuncDecl); isFn {
				break
			}
		}
		if found != nil {
			return found, true
		}
	}
	xr := ast.Unparen(x)
	if _, isID := xr.(*ast.Ident); isID {
		xr = e.P.DefExpr(xr) // c := kids[i]
	}
	ix, ok := ast.Unparen(xr).(*ast.IndexExpr)
	if !ok {
		// S[i].F
		if sel, isSel := ast.Unparen(xr).(*ast.SelectorExpr); isSel {
			if s, full := c.fullLoop(e, sel.X); full {
				return s, true
			}
		}
		return nil, false
	}
	if e.P.inFullIndexLoop(info, ix, e.CurFunc()) {
		return ix.X, true
	}
	return ix.X, false
}

// entriesOf: what adding x to a list adds.
func (c *walkSem) entriesOf(e *Engine, st *State, x ast.Expr) ([]pushEntry, bool) {
	info := e.Info
	x = ast.Unparen(x)
	base, full := c.fullLoop(e, x)
	// every element of another list (for i := range kids { stack = append(stack, kids[i]) })
	if base != nil {
		if lk := c.listKey(e, base); lk != "" {
			if _, tracked := st.ext[lk]; tracked {
				es, known := decodeEntries(st.Ext(lk))
				if !known {
					return nil, false
				}
				if !full {
					for i := range es {
						es[i].key += "[?]"
					}
					return es, true
				}
				// a nil test of the element protects the interface-valued entries
				if e.NonNil(st, x) {
					for i := range es {
						if es[i].kind == "iface" {
							es[i].nn = "1"
						}
					}
				}
				return es, true
			}
		}
	}
	k := e.CanonSt(st, x)
	// the value variable of `for _, v := range S` (or a field path from it): an element of S
	if base != nil && full && k.OK {
		root := x
		for {
			if sel, isSel := ast.Unparen(root).(*ast.SelectorExpr); isSel {
				root = sel.X
				continue
			}
			break
		}
		if id, isID := ast.Unparen(root).(*ast.Ident); isID {
			if o := objOf(info, id); o != nil {
				vk := e.objKey(o)
				if f := st.Get(vk); (f == nil || len(f.Tags) == 0) && (k.Key == vk || strings.HasPrefix(k.Key, vk+".")) {
					if bk := e.CanonSt(st, base); bk.OK {
						k.Key = bk.Key + "[*]" + strings.TrimPrefix(k.Key, vk)
					}
				}
			}
		}
	}
	ent := pushEntry{kind: "ptr", typ: TypeStr(info.TypeOf(x)), at: strconv.Itoa(int(x.Pos())) + "@" + e.FrameKey()}
	if t := info.TypeOf(x); t != nil {
		if _, isIface := t.Underlying().(*types.Interface); isIface {
			ent.kind = "iface"
			// a parameter of a helper interpreted in place: the static type of what was passed
			if rx := e.ResolveExpr(x); rx != nil && rx != x {
				if rt := info.TypeOf(rx); rt != nil {
					if _, stillIface := rt.Underlying().(*types.Interface); stillIface {
						ent.typ = TypeStr(rt)
					}
				}
			}
		}
	}
	key := ""
	if k.OK {
		key = k.Key
	}
	if e.NonNil(st, x) {
		ent.nn = "1"
	}
	// an interface variable that holds a pointer taken from a field: the field is what counts
	if id, ok := x.(*ast.Ident); ok {
		if o := objOf(info, id); o != nil {
			if f := st.Get(e.objKey(o)); f != nil {
				for _, t := range f.Tags {
					if strings.HasPrefix(t, "boxed:") {
						key = strings.TrimPrefix(t, "boxed:")
						ent.kind = "ptr"
						ent.nn = ""
						if g := st.Get(key); g != nil && g.Nil == 2 {
							ent.nn = "1"
						}
						if len(f.TyIn) == 1 {
							ent.typ = f.TyIn[0]
						}
					}
				}
			}
		}
	}
	if key == "" {
		return nil, false
	}
	ent.key = c.relKey(st, key, full || base == nil)
	return []pushEntry{ent}, true
}

// listOf: the contents of a list-valued expression.
func (c *walkSem) listOf(e *Engine, st *State, x ast.Expr) string {
	info := e.Info
	x = ast.Unparen(x)
	if isNilIdent(info, x) {
		return listEmpty
	}
	switch v := x.(type) {
	case *ast.Ident:
		if lk := c.listKey(e, v); lk != "" {
			if s, ok := st.ext[lk]; ok {
				return s
			}
		}
		return listUnknown
	case *ast.SliceExpr:
		if v.High != nil {
			if z, ok := constInt(info, v.High); ok && z == 0 {
				return listEmpty // buf = buf[:0]
			}
		}
		return c.listOf(e, st, v.X)
	case *ast.CompositeLit:
		var all []pushEntry
		for _, el := range v.Elts {
			if _, isKV := el.(*ast.KeyValueExpr); isKV {
				return listUnknown
			}
			es, ok := c.entriesOf(e, st, el)
			if !ok {
				return listUnknown
			}
			all = append(all, es...)
		}
		return encodeEntries(all)
	case *ast.CallExpr:
		if IsBuiltinCall(info, v, "make") {
			if len(v.Args) < 2 {
				return listEmpty
			}
			n, isC := constInt(info, v.Args[1])
			switch {
			case isC && n == 0:
				return listEmpty
			case isC && n >= 1 && n <= 8:
				// n zero elements, to be filled in by index (stack := make([]Node, 1, hint); stack[0] = root)
				var zs []pushEntry
				for i := int64(0); i < n; i++ {
					zs = append(zs, pushEntry{key: "zero#" + strconv.Itoa(int(i)), kind: "zero", at: strconv.Itoa(int(v.Pos()))})
				}
				return encodeEntries(zs)
			}
			return listUnknown
		}
		if IsBuiltinCall(info, v, "append") && len(v.Args) >= 1 {
			all, known := decodeEntries(c.listOf(e, st, v.Args[0]))
			if !known {
				return listUnknown
			}
			if v.Ellipsis.IsValid() && len(v.Args) == 2 {
				more, ok := decodeEntries(c.listOf(e, st, v.Args[1]))
				if !ok {
					return listUnknown
				}
				return encodeEntries(append(all, more...))
			}
			for _, a := range v.Args[1:] {
				es, ok := c.entriesOf(e, st, a)
				if !ok {
					return listUnknown
				}
				all = append(all, es...)
			}
			if len(all) > 64 {
				return listUnknown
			}
			return encodeEntries(all)
		}
		if ids, ok := e.inlined[v]; ok && len(ids) == 1 {
			return c.listOf(e, st, ids[0])
		}
		// stack = pushAll(stack, n.F) / push(stack, a, b, c): every element (skipping nil ones) of the rest
		if fn := Callee(info, v); fn != nil && len(v.Args) >= 1 {
			if isHelper, skipsNil := c.p.pushAllHelperG(fn); isHelper {
				all, known := decodeEntries(c.listOf(e, st, v.Args[0]))
				if !known {
					return listUnknown
				}
				sig := fn.Type().(*types.Signature)
				var more []pushEntry
				switch {
				case sig.Variadic() && !v.Ellipsis.IsValid():
					for _, a := range v.Args[1:] {
						es, ok := c.entriesOf(e, st, a)
						if !ok {
							return listUnknown
						}
						more = append(more, es...)
					}
				case len(v.Args) == 2:
					arg := v.Args[1]
					if lk := c.listKey(e, arg); lk != "" {
						if _, tracked := st.ext[lk]; tracked {
							es, ok := decodeEntries(st.Ext(lk))
							if !ok {
								return listUnknown
							}
							more = es
							break
						}
					}
					k := e.CanonSt(st, arg)
					sl, isSlice := info.TypeOf(arg).Underlying().(*types.Slice)
					if !k.OK || !isSlice {
						return listUnknown
					}
					ent := pushEntry{key: c.relKey(st, k.Key+"[*]", true), kind: "ptr", typ: TypeStr(sl.Elem()), at: strconv.Itoa(int(v.Pos())) + "@" + e.FrameKey()}
					if _, isIface := sl.Elem().Underlying().(*types.Interface); isIface {
						ent.kind = "iface"
					}
					more = []pushEntry{ent}
				default:
					return listUnknown
				}
				if skipsNil {
					for i := range more {
						if more[i].kind == "iface" {
							more[i].nn = "1" // the helper's nil test is effective for interface values only
						}
					}
				}
				return encodeEntries(append(all, more...))
			}
		}
	}
	return listUnknown
}

func bump(s string) string {
	n, _ := strconv.Atoi(s)
	if n >= 2 {
		return "2"
	}
	return strconv.Itoa(n + 1)
}

func (c *walkSem) PostAssign(e *Engine, st *State, lhs, rhs []ast.Expr, stmt ast.Stmt) *State {
	info := e.Info
	out := st
	vals := make([]string, len(lhs))
	have := make([]bool, len(lhs))
	switch {
	case len(rhs) == len(lhs):
		for i := range rhs {
			if c.listKey(e, lhs[i]) != "" {
				vals[i], have[i] = c.listOf(e, st, rhs[i]), true
			}
		}
	case len(rhs) == 1:
		if call, ok := ast.Unparen(rhs[0]).(*ast.CallExpr); ok {
			if ids, ok := e.inlined[call]; ok {
				for i := range lhs {
					if i < len(ids) && c.listKey(e, lhs[i]) != "" {
						vals[i], have[i] = c.listOf(e, st, ids[i]), true
					}
				}
			}
		}
	case len(rhs) == 0:
		if _, isDecl := stmt.(*ast.DeclStmt); isDecl {
			for i := range lhs {
				vals[i], have[i] = listEmpty, true // var kids []Node
			}
		}
	}
	// L[i] = v: fills in a zero element of a list made with a length; any other store into an element of a tracked
	// list makes its contents unknown
	if len(rhs) == len(lhs) {
		for i, l := range lhs {
			ix, isIx := ast.Unparen(l).(*ast.IndexExpr)
			if !isIx {
				continue
			}
			lk := c.listKey(e, ix.X)
			if lk == "" {
				continue
			}
			if _, tracked := out.ext[lk]; !tracked {
				continue
			}
			es, known := decodeEntries(out.Ext(lk))
			idx, isC := constInt(info, ix.Index)
			filled := false
			if known && isC && idx >= 0 && int(idx) < len(es) && strings.HasPrefix(es[idx].key, "zero#") {
				if one, ok := c.entriesOf(e, st, rhs[i]); ok && len(one) == 1 {
					ns := append([]pushEntry{}, es...)
					ns[idx] = one[0]
					out = out.WithExt(lk, encodeEntries(ns))
					filled = true
				}
			}
			if !filled {
				out = out.WithExt(lk, listUnknown)
			}
		}
	}
	for i, l := range lhs {
		lk := c.listKey(e, l)
		if lk == "" {
			continue
		}
		v := listUnknown
		if have[i] {
			v = vals[i]
		}
		out = out.WithExt(lk, v)
		// a list with n definite entries has at least n elements (a loop over it runs)
		if es, known := decodeEntries(v); known {
			n := int64(0)
			for _, x := range es {
				if !strings.Contains(x.key, "[") {
					n++
				}
			}
			if n > 0 {
				out = e.SetLenAtLeast(out, l, n)
			}
		}
	}
	if len(e.Frames()) == 0 && len(rhs) == len(lhs) {
		for i, l := range lhs {
			id, isID := ast.Unparen(l).(*ast.Ident)
			if !isID || id.Name == "_" {
				continue
			}
			o := objOf(info, id)
			if o == nil {
				continue
			}
			// curr := stack[len(stack)-1]
			if ix, ok := ast.Unparen(rhs[i]).(*ast.IndexExpr); ok && c.isNodeSlice(info.TypeOf(ix.X)) && types.Identical(o.Type(), c.nodeT) {
				so := objOf(info, ix.X)
				if so != nil && isLenMinus1(info, e.P.DefExpr(ix.Index), so) {
					out = out.WithExt("pops", bump(out.Ext("pops"))).WithExt("cur", e.objKey(o)).WithExt("popfrom", e.objKey(so))
				} else {
					out = out.WithExt("pops", "2") // reads something else than the last element
				}
			}
			// stack = stack[:len(stack)-1]
			if sl, ok := ast.Unparen(rhs[i]).(*ast.SliceExpr); ok && c.isNodeSlice(o.Type()) && objOf(info, sl.X) == o {
				rk := "reslice:" + e.objKey(o)
				switch {
				case sl.Low == nil && sl.High != nil && isLenMinus1(info, e.P.DefExpr(sl.High), o):
					out = out.WithExt(rk, bump(out.Ext(rk)))
				case sl.Low == nil && sl.High != nil && func() bool { z, isC := constInt(info, sl.High); return isC && z == 0 }():
					// emptied (a scratch list): not a removal from the worklist
				default:
					out = out.WithExt(rk, "2")
				}
			}
		}
	}
	if out != st {
		return out
	}
	return nil
}

func (c *walkSem) PreCall(e *Engine, st *State, call *ast.CallExpr, callee *types.Func) *State {
	info := e.Info
	out := st
	if endsWalk(info, call) != "" && c.panicSeen != nil {
		// the state in which the walk would end: fine only where no node type is left for the popped node (it is nil,
		// or every type the traversal names has been excluded on this path)
		c.panicSeen[call]++
		fallback := false
		if cur := st.Ext("cur"); cur != "" {
			if f := st.Get(cur); f != nil {
				if f.Nil == 1 {
					fallback = true
				}
				if len(f.TyIn) == 0 && len(c.caseTypes) > 0 {
					all := true
					for t := range c.caseTypes {
						if !hasStr(f.TyOut, t) {
							all = false
						}
					}
					if all {
						fallback = true
					}
				}
			}
		}
		if !fallback {
			c.panicBad[call]++
		}
	}
	// the visitor
	if o := objOf(info, e.ResolveExpr(call.Fun)); o != nil && o == c.visitObj {
		out = out.WithExt("visits", bump(out.Ext("visits")))
		okArg := false
		if len(call.Args) == 1 {
			if k := e.CanonSt(st, call.Args[0]); k.OK {
				cur := st.Ext("cur")
				okArg = cur != "" && (k.Key == cur || strings.HasPrefix(k.Key, "assert("+cur+",") && strings.HasSuffix(k.Key, ")") && !strings.Contains(k.Key, ")."))
				if okArg {
					out = out.WithExt("visitkey", k.Key)
				}
			}
		}
		if !okArg {
			out = out.WithExt("visitarg", "bad")
		}
		return out
	}
	// a variadic helper: its last parameter is the list of the remaining arguments
	if callee != nil {
		if decl, _ := e.P.DeclOf(callee); decl != nil && decl.Type.Params != nil {
			sig := callee.Type().(*types.Signature)
			if sig.Variadic() && c.isNodeSlice(sig.Params().At(sig.Params().Len()-1).Type()) {
				var last *ast.Ident
				for _, f := range decl.Type.Params.List {
					for _, n := range f.Names {
						last = n
					}
				}
				nfixed := sig.Params().Len() - 1
				if last != nil && len(call.Args) >= nfixed {
					v := listUnknown
					if call.Ellipsis.IsValid() {
						v = c.listOf(e, st, call.Args[len(call.Args)-1])
					} else {
						var all []pushEntry
						ok := true
						for _, a := range call.Args[nfixed:] {
							es, known := c.entriesOf(e, st, a)
							if !known {
								ok = false
							}
							all = append(all, es...)
						}
						if ok {
							v = encodeEntries(all)
						}
					}
					if o := info.Defs[last]; o != nil {
						out = out.WithExt("list:"+e.objKey(o), v)
						if !call.Ellipsis.IsValid() {
							out = e.SetLenOfVar(out, o, int64(len(call.Args)-nfixed))
						}
					}
				}
			}
		}
	}
	if out != st {
		return out
	}
	return nil
}

func (c *walkSem) isMain(e *Engine, loop ast.Stmt) bool {
	return len(e.Frames()) == 0 && loop == c.mainLoop
}

func (c *walkSem) LoopHead(e *Engine, st *State, loop ast.Stmt) *State {
	if !c.isMain(e, loop) {
		return nil
	}
	out := st
	if st.Ext("iter") == "" {
		// entering the loop: the worklist holds the root, once
		if e.Reporting() {
			var lists []string
			for k, v := range st.ext {
				if strings.HasPrefix(k, "list:") && v != listEmpty {
					lists = append(lists, v)
				}
			}
			ok := false
			if len(lists) == 1 {
				if es, known := decodeEntries(lists[0]); known && len(es) == 1 && es[0].key == "abs:"+e.objKey(c.rootObj) {
					ok = true
				}
			}
			e.Site("C11/once", c.fn+" root", loop, ok, "the worklist starts with the root node, once")
			if !ok {
				e.Site("C11/once", c.fn+" root", loop, false, "the worklist does not start as exactly the root node: the root would be skipped, visited twice, or something else visited first")
			}
		}
		out = out.WithExt("iter", "1")
	}
	for k := range st.ext {
		if strings.HasPrefix(k, "list:") {
			out = out.WithExt(k, listEmpty)
		}
	}
	for _, k := range []string{"cur", "popfrom", "pops", "visits", "visitarg", "visitkey"} {
		out = out.WithExt(k, "")
	}
	for k := range st.ext {
		if strings.HasPrefix(k, "reslice:") {
			out = out.WithExt(k, "")
		}
	}
	if out != st {
		return out
	}
	return nil
}

func (c *walkSem) LoopBack(e *Engine, st *State, loop ast.Stmt) {
	if !c.isMain(e, loop) || !e.Reporting() {
		return
	}
	if os.Getenv("PQL_DEBUG_WALK") != "" {
		fmt.Fprintln(os.Stderr, "WALK", st.String())
	}
	cur := st.Ext("cur")
	okPop := st.Ext("pops") == "1" && st.Ext("reslice:"+st.Ext("popfrom")) == "1" && cur != ""
	e.Site("C11/once", c.fn+" pop discipline", loop, okPop, "each iteration pops exactly the last element and dispatches on it")
	if !okPop {
		e.Site("C11/once", c.fn+" pop discipline", loop, false, fmt.Sprintf("worklist pop discipline broken (reads of the last element per iteration=%s, removals=%s)", st.Ext("pops"), st.Ext("reslice:"+st.Ext("popfrom"))))
		return
	}
	pushed, known := decodeEntries(st.Ext("list:" + st.Ext("popfrom")))
	var types_ []string
	if f := st.Get(cur); f != nil {
		types_ = f.TyIn
	}
	visits := st.Ext("visits")
	if visits == "" {
		visits = "0"
	}
	if len(types_) == 0 {
		// no case took the node: nothing may have happened
		ok := visits == "0" && known && len(pushed) == 0
		if !ok {
			e.Site("C11/once", c.fn+" iteration without a known node type", loop, false, "an iteration calls the visitor or pushes nodes on a path where the dynamic type of the popped node is not determined")
		}
		return
	}
	// what the visitor answered on this path
	answer := ""
	if vk := st.Ext("visitkey"); vk != "" {
		for _, key := range st.Keys() {
			if strings.HasPrefix(key, "call:dyn:") && strings.HasSuffix(key, "("+vk+")") {
				if f := st.Get(key); f != nil && f.HasEq {
					answer = f.Eq
				}
			}
		}
	}
	for _, T := range types_ {
		c.seen[T] = true
		onceKey := c.fn + " case " + T
		switch {
		case visits != "1":
			e.Site("C11/once", onceKey, loop, false, fmt.Sprintf("visitor called %s times for a node of this type (want exactly once)", visits))
			continue
		case st.Ext("visitarg") == "bad":
			e.Site("C11/once", onceKey, loop, false, "visitor is not called with the node of this case")
			continue
		}
		if !known {
			e.Site("C11/once", onceKey, loop, false, "what this iteration adds to the worklist cannot be followed")
			continue
		}
		if len(pushed) > 0 && answer != "true" {
			e.Site("C11/once", onceKey+" push "+pushed[0].key, loop, false, "child pushed without being gated on the visitor's result (skip contract: false must skip the descendants) or before the visitor call")
			continue
		}
		e.Site("C11/once", onceKey, loop, true, "visit(n) once; pushes only where the visitor answered true")
		if answer == "false" {
			continue
		}
		st0 := c.structs[T]
		if st0 == nil {
			// the node type may implement Node by value (then *T and T both do)
			st0 = c.structs[strings.TrimPrefix(T, "*")]
		}
		sT := StructOf(st0)
		if sT == nil {
			continue
		}
		count := map[string][]pushEntry{}
		for _, pe := range pushed {
			count[pe.key] = append(count[pe.key], pe)
		}
		used := map[string]bool{}
		childless := true
		for i := 0; i < sT.NumFields(); i++ {
			f := sT.Field(i)
			elem := f.Type()
			isSlice := false
			if sl, ok := elem.Underlying().(*types.Slice); ok {
				elem, isSlice = sl.Elem(), true
			}
			if !types.Implements(elem, c.nodeIface) {
				continue
			}
			fk := fieldKey(st0, f)
			key := c.fn + " case " + T + " field " + f.Name()
			if why, ok := walkSkipDocumented[fk]; ok {
				if len(count[f.Name()]) > 0 {
					e.Site("C11/complete", key, loop, false, "a field that is documented as not visited is pushed")
				} else {
					e.Site("C11/complete", key, loop, true, why)
				}
				used[f.Name()] = true
				continue
			}
			childless = false
			if answer != "true" {
				// a type with children whose visitor result is not tested: nothing can have been pushed
				e.Site("C11/complete", key, loop, false, fmt.Sprintf("node-bearing field %s is never pushed: its subtree is never visited", fk))
				continue
			}
			if isSlice {
				all, part := f.Name()+"[*]", f.Name()+"[?]"
				used[all], used[part] = true, true
				_, elemIface := elem.Underlying().(*types.Interface)
				if !elemIface && !c.hasCase(TypeStr(elem)) {
					// elements without a case of their own: their node fields instead
					if est := StructOf(elem); est != nil {
						for j := 0; j < est.NumFields(); j++ {
							ef := est.Field(j)
							if !types.Implements(ef.Type(), c.nodeIface) {
								continue
							}
							ek, ekPart := f.Name()+"[*]."+ef.Name(), f.Name()+"[?]."+ef.Name()
							used[ek], used[ekPart] = true, true
							got := count[ek]
							c.note(key+"[i]."+ef.Name(), fieldKey(elem, ef), "element type has no case of its own; the element's node field is pushed for every element", len(got), len(count[ekPart]) > 0)
							if len(got) == 1 {
								c.noteNeed(got[0].typ, "push of "+fieldKey(elem, ef))
								if why := c.optional[fieldKey(elem, ef)]; why != "" {
									guarded := got[0].nn == "1"
									e.Site("C11/nil", key+"[i]."+ef.Name(), loop, guarded, "optional field pushed under `!= nil`")
									if !guarded {
										e.Site("C11/nil", key+"[i]."+ef.Name(), loop, false, fmt.Sprintf("optional field %s pushed without a nil guard (%s)", fieldKey(elem, ef), why))
									}
								}
							}
						}
					}
					continue
				}
				c.note(key, fk, "every element pushed (loop over all indices)", len(count[all]), len(count[part]) > 0)
				if len(count[all]) == 1 {
					c.noteNeed(count[all][0].typ, "push of "+fk)
				}
				continue
			}
			used[f.Name()] = true
			got := count[f.Name()]
			fNil := c.fieldNil(st, cur, T, "", f.Name())
			why := c.optional[fk]
			switch {
			case len(got) > 1:
				e.Site("C11/complete", key, loop, false, fmt.Sprintf("field %s is pushed %d times: its subtree would be visited more than once", fk, len(got)))
			case len(got) == 1:
				e.Site("C11/complete", key, loop, true, "pushed")
				c.noteNeed(got[0].typ, "push of "+fk)
				if why != "" {
					guarded := got[0].nn == "1"
					e.Site("C11/nil", key, loop, guarded, "optional field pushed under `!= nil`")
					if !guarded {
						e.Site("C11/nil", key, loop, false, fmt.Sprintf("optional field %s is pushed without a nil guard (%s): the visitor receives a nil node or the default branch panics", fk, why))
					}
				}
			case fNil == 1:
				e.Site("C11/complete", key, loop, true, "not pushed where it is known to be nil")
			default:
				e.Site("C11/complete", key, loop, false, fmt.Sprintf("node-bearing field %s is never pushed: its subtree is never visited", fk))
			}
		}
		_ = childless
		for k := range count {
			if !used[k] {
				e.Site("C11/complete", c.fn+" case "+T+" pushes only its children", loop, false, "something that is not a child field of the node is pushed: "+k)
			}
		}
	}
}

// fieldNil: what the path knows about the field of the popped node: 1 nil, 2 non-nil, 0 unknown.
func (c *walkSem) fieldNil(st *State, cur, T, mid, name string) int {
	if mid != "" {
		return 0
	}
	for _, k := range []string{"assert(" + cur + "," + T + ")." + name, cur + "." + name} {
		if f := st.Get(k); f != nil && (f.Nil == 1 || f.Nil == 2) {
			return int(f.Nil)
		}
	}
	return 0
}

func (c *walkSem) hasCase(T string) bool { return c.seen[T] || c.caseTypes[T] }

func (c *walkSem) noteNeed(typ, how string) {
	if _, ok := c.need[typ]; !ok {
		c.need[typ] = how
	}
}

var walkSkipDocumented = map[string]string{
	"CallExpr.Func":       "documented exception: function-name identifiers are not visited",
	"JoinOperator.Flavor": "documented exception: join-kind identifiers are not visited",
}

var _ = token.NoPos

func ruleC11Sem(p *Program, r *Run) {
	pkg := p.Parser
	info := p.Info
	fd := p.MustFunc(pkg, "Walk")
	fn := "parser.Walk"
	r.Saw(fn)
	params := fd.Type.Params.List
	if len(params) != 2 || len(params[0].Names) != 1 || len(params[1].Names) != 1 {
		fatalf("parser.Walk: expected 2 parameters")
	}
	c := &walkSem{p: p, fd: fd, fn: fn, nodeIface: p.Iface(pkg, "Node"), nodeT: p.Named(pkg, "Node"),
		rootObj: info.Defs[params[0].Names[0]], visitObj: info.Defs[params[1].Names[0]],
		optional: p.optionalForWalk(), seen: map[string]bool{}, need: map[string]string{}, structs: map[string]types.Type{}, caseTypes: map[string]bool{}, agg: map[string]*sliceAgg{}}
	for _, t := range p.Implementers(c.nodeIface) {
		c.structs[TypeStr(t)] = t
	}
	for _, s := range fd.Body.List {
		switch s.(type) {
		case *ast.ForStmt, *ast.RangeStmt:
			if c.mainLoop == nil {
				c.mainLoop = s
			}
		}
	}
	if c.mainLoop == nil {
		fatalf("parser.Walk: no worklist loop found")
	}
	// case types named anywhere in the traversal code
	regions := []ast.Node{fd.Body}
	seenDecl := map[*ast.FuncDecl]bool{fd: true}
	for i := 0; i < len(regions) && i < 16; i++ {
		for _, ts := range findTypeSwitches(info, regions[i], nil) {
			if t := info.TypeOf(ts.Tag); t == nil || !types.Implements(t, c.nodeIface) && !types.Identical(t, c.nodeT) {
				continue
			}
			for _, tys := range ts.Types {
				for _, t := range tys {
					if t != nil {
						c.caseTypes[TypeStr(t)] = true
					}
				}
			}
		}
		ast.Inspect(regions[i], func(n ast.Node) bool {
			if call, ok := n.(*ast.CallExpr); ok {
				if f := Callee(info, call); f != nil {
					if decl, dpkg := p.DeclOf(f); decl != nil && decl.Body != nil && dpkg == pkg && !seenDecl[decl] {
						seenDecl[decl] = true
						regions = append(regions, decl.Body)
					}
				}
			}
			return true
		})
	}
	// the traversal is not abandoned: a panic (or an exit of the process) anywhere in the traversal code ends it with
	// nodes still on the worklist. The one place that cannot be reached is the fallback for a node of no known type -
	// the default arm (or `case nil`) of a type switch over the node, or any place that the path states reach only
	// with every node type excluded (C11/handled decides that no node gets there). Judged after the interpretation.
	type endSite struct {
		call      *ast.CallExpr
		what      string
		where     string
		inDefault bool
	}
	var endSites []endSite
	for _, root := range regions {
		ast.Inspect(root, func(nd ast.Node) bool {
			call, ok := nd.(*ast.CallExpr)
			if !ok {
				return true
			}
			what := endsWalk(info, call)
			if what == "" {
				return true
			}
			inDefault := false
			p.ancestors(call, p.FuncAt(call.Pos()), func(anc, _ ast.Node) bool {
				cc, isCC := anc.(*ast.CaseClause)
				if !isCC {
					return true
				}
				fallbackArm := cc.List == nil
				if len(cc.List) == 1 && isNilIdent(info, cc.List[0]) {
					fallbackArm = true
				}
				if !fallbackArm {
					return true
				}
				if body, isBody := p.Parent(cc).(*ast.BlockStmt); isBody {
					if ts, isTS := p.Parent(body).(*ast.TypeSwitchStmt); isTS {
						if t := info.TypeOf(typeSwitchOf(info, ts).Tag); t != nil && (types.Implements(t, c.nodeIface) || types.Identical(t, c.nodeT)) {
							inDefault = true
						}
					}
				}
				return true
			})
			where := "parser.Walk"
			if h := p.FuncAt(call.Pos()); h != nil {
				where = FuncName(pkg, h)
			}
			endSites = append(endSites, endSite{call, what, where, inDefault})
			return true
		})
	}
	c.panicBad, c.panicSeen = map[*ast.CallExpr]int{}, map[*ast.CallExpr]int{}
	defer func() {
		for i, es := range endSites {
			ok := es.inDefault || (c.panicSeen[es.call] > 0 && c.panicBad[es.call] == 0)
			how := "in the fallback arm of the type switch over the node (no node type reaches it, C11/handled)"
			if !es.inDefault {
				how = "reached only in path states in which every node type is excluded for the popped node"
			}
			r.Check(ok, "C11/complete", fmt.Sprintf("%s %s #%d does not abandon the traversal", es.where, es.what, i+1), p.Pos(es.call.Pos()), how,
				"the traversal code calls "+es.what+" where a node of a known type (or no node at all) can be at hand: the walk ends there and the nodes still on the worklist are never visited")
		}
	}()
	// the traversal keeps nothing between or across calls: a visit function may itself call Walk, and two traversals
	// may run at once, so every package-level variable the traversal code touches must be read-only
	{
		shared := map[*types.Var]token.Pos{}
		for _, root := range regions {
			ast.Inspect(root, func(n ast.Node) bool {
				id, ok := n.(*ast.Ident)
				if !ok {
					return true
				}
				v, ok := info.Uses[id].(*types.Var)
				if !ok || v.Pkg() == nil || v.Parent() != v.Pkg().Scope() {
					return true
				}
				readOnly := p.globalNeverWritten(v)
				switch par := p.Parent(id).(type) {
				case *ast.UnaryExpr:
					if par.Op == token.AND {
						readOnly = false
					}
				case *ast.SelectorExpr:
					// a method with a pointer receiver called on the variable (a pool, a mutex-guarded cache)
					if par.X == ast.Expr(id) {
						if sel := info.Selections[par]; sel != nil && sel.Kind() == types.MethodVal {
							if sig, ok := sel.Obj().Type().(*types.Signature); ok && sig.Recv() != nil {
								if _, ptr := sig.Recv().Type().(*types.Pointer); ptr {
									readOnly = false
								}
							}
						}
					}
				}
				if !readOnly {
					if _, dup := shared[v]; !dup {
						shared[v] = id.Pos()
					}
				}
				return true
			})
		}
		var vs []*types.Var
		for v := range shared {
			vs = append(vs, v)
		}
		sort.Slice(vs, func(i, j int) bool { return shared[vs[i]] < shared[vs[j]] })
		for _, v := range vs {
			r.Fail("C11/once", fn+" shares "+v.Name()+" between calls", p.Pos(shared[v]), "the traversal uses the package-level variable "+v.Name()+", which is written or handed out for writing: a visit function that itself calls Walk, or two traversals at the same time, work on the same storage, so pending nodes of one are overwritten by the other")
		}
		if len(vs) == 0 {
			r.PassNT("C11/once", fn+" keeps no state outside the call", p.Pos(fd.Pos()), "no writable package-level variable is used by the traversal code")
		}
	}
	// loop condition: runs while the worklist is non-empty
	condOK := false
	if fs, ok := c.mainLoop.(*ast.ForStmt); ok && fs.Cond != nil && fs.Init == nil && fs.Post == nil {
		if b, ok := ast.Unparen(fs.Cond).(*ast.BinaryExpr); ok {
			x, y, op := b.X, b.Y, b.Op
			if _, isConst := constInt(info, x); isConst {
				x, y, op = y, x, flipOp(op)
			}
			if call, ok := ast.Unparen(x).(*ast.CallExpr); ok && IsBuiltinCall(info, call, "len") && len(call.Args) == 1 && c.isNodeSlice(info.TypeOf(call.Args[0])) {
				if z, isC := constInt(info, y); isC {
					condOK = op == token.GTR && z == 0 || op == token.NEQ && z == 0 || op == token.GEQ && z == 1
				}
			}
		}
	}
	r.Check(condOK, "C11/once", fn+" worklist loop condition", p.Pos(c.mainLoop.Pos()), "loops while the worklist is non-empty", "worklist loop condition is not `len(stack) > 0`: nodes may be left unvisited or an empty stack popped")

	e := NewEngine(p, pkg, fd, c)
	e.PureDyn = map[types.Object]bool{c.visitObj: true}
	e.Run(nil)
	for _, m := range e.Errs {
		r.Fail("C11/once", fn+" engine", "-", m)
	}
	e.FlushSites(r)
	for _, key := range c.aggOrder {
		a := c.agg[key]
		optionalElem := c.optional[a.fk] != ""
		switch {
		case a.partial > 0:
			r.Fail("C11/complete", key, p.Pos(fd.Pos()), "slice field is not pushed inside a loop over all of its indices")
		case a.multi > 0:
			r.Fail("C11/complete", key, p.Pos(fd.Pos()), fmt.Sprintf("field %s is pushed more than once: its subtree would be visited more than once", a.fk))
		case a.once == 0 && !optionalElem:
			r.Fail("C11/complete", key, p.Pos(fd.Pos()), fmt.Sprintf("node-bearing field %s is never pushed: its subtree is never visited", a.fk))
		case a.once == 0:
			r.Fail("C11/complete", key, p.Pos(fd.Pos()), fmt.Sprintf("node-bearing field %s is never pushed: its subtree is never visited", a.fk))
		default:
			r.Pass("C11/complete", key, p.Pos(fd.Pos()), a.how)
		}
	}

	// ---- C11/handled: every dynamic type that can reach the worklist is dispatched to a case that visits it
	need := map[string]string{}
	for _, rootIface := range []string{"Statement", "Expr"} {
		for _, d := range p.Implementers(p.Iface(pkg, rootIface)) {
			need[TypeStr(d)] = "root argument of type " + rootIface
		}
	}
	for typ, how := range c.need {
		var t types.Type
		if tt, ok := c.structs[typ]; ok {
			t = tt
		} else {
			// an interface type: all its implementers
			for _, name := range []string{"Node", "Expr", "Statement", "TabularOperator", "TabularDataSource"} {
				if obj := pkg.Types.Scope().Lookup(name); obj != nil && TypeStr(obj.Type()) == typ {
					t = obj.Type()
				}
			}
		}
		if t == nil {
			need[typ] = how
			continue
		}
		for _, d := range p.dynTypes(t) {
			if _, ok := need[TypeStr(d)]; !ok {
				need[TypeStr(d)] = how
			}
		}
	}
	var names []string
	for n := range need {
		names = append(names, n)
	}
	sort.Strings(names)
	for _, n := range names {
		key := fmt.Sprintf("%s dynamic type %s", fn, n)
		if c.seen[n] {
			r.PassNT("C11/handled", key, p.Pos(fd.Pos()), "has a case; reachable via "+need[n])
		} else {
			r.Fail("C11/handled", key, p.Pos(fd.Pos()), fmt.Sprintf("%s can reach the worklist (%s) but no case visits it: the default branch panics (or the node is dropped)", n, need[n]))
		}
	}
	r.Floor("C11/handled", 26)
	r.Floor("C11/complete", 30)
	r.Floor("C11/once", 26)
	r.Floor("C11/nil", 3)
	ruleC11Use(p, r)
}

// endsWalk: the call never returns to the traversal (panic, exit of the process or of the goroutine).
func endsWalk(info *types.Info, call *ast.CallExpr) string {
	if IsBuiltinCall(info, call, "panic") {
		return "panic"
	}
	if f := Callee(info, call); f != nil {
		switch f.FullName() {
		case "os.Exit", "runtime.Goexit", "log.Fatal", "log.Fatalf", "log.Fatalln", "log.Panic", "log.Panicf", "log.Panicln":
			return f.FullName()
		}
	}
	return ""
}
