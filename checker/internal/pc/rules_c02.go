package pc

import (
	"fmt"
	"go/ast"
	"go/token"
	"go/types"
	"sort"
	"strings"
)

// ---- C02/attach: typestate of pending sort/take on a subquery.

type attachClient struct {
	BaseClient
	InlinePure
	p         *Program
	chain     *types.Func
	canAttach *types.Func
	sortF     *types.Var
	takeF     *types.Var
	opF       *types.Var
	needOut   []string // operator types that must be excluded before a sort is attached
	fn        string
}

func (c *attachClient) PostAssign(e *Engine, st *State, lhs, rhs []ast.Expr, _ ast.Stmt) *State {
	if len(rhs) == 1 && len(lhs) >= 1 {
		if call, ok := ast.Unparen(rhs[0]).(*ast.CallExpr); ok {
			callee := Callee(e.Info, call)
			if callee == c.chain {
				st = e.SetTag(st, lhs[0], "fresh:chainSubquery")
			} else if i := c.freshResult(callee); i >= 0 && i < len(lhs) {
				// a helper that chains a new subquery and hands it back (appendChained: the list, the new subquery, an error)
				st = e.SetTag(st, lhs[i], "fresh:chainSubquery")
			}
		}
	}
	return st
}

// freshResult: the index of the result through which a helper of the planner hands back the subquery it has just
// made with chainSubquery (every non-nil value returned there is that subquery); -1 if it is not such a helper.
func (c *attachClient) freshResult(f *types.Func) int {
	if f == nil || f == c.chain {
		return -1
	}
	decl, dpkg := c.p.DeclOf(f)
	if decl == nil || decl.Body == nil || dpkg != c.p.PQL {
		return -1
	}
	info := c.p.PQL.TypesInfo
	sig := f.Type().(*types.Signature)
	idx := -1
	for i := 0; i < sig.Results().Len(); i++ {
		if TypeStr(sig.Results().At(i).Type()) == "*pql.subquery" {
			if idx >= 0 {
				return -1
			}
			idx = i
		}
	}
	if idx < 0 {
		return -1
	}
	// the local that receives chainSubquery's result
	var made types.Object
	ast.Inspect(decl.Body, func(n ast.Node) bool {
		if as, ok := n.(*ast.AssignStmt); ok && len(as.Rhs) == 1 && len(as.Lhs) >= 1 {
			if call, isCall := ast.Unparen(as.Rhs[0]).(*ast.CallExpr); isCall && Callee(info, call) == c.chain {
				made = objOf(info, as.Lhs[0])
			}
		}
		return true
	})
	if made == nil || !c.p.neverReassigned(made) {
		return -1
	}
	ok, rets := true, 0
	ast.Inspect(decl.Body, func(n ast.Node) bool {
		ret, isRet := n.(*ast.ReturnStmt)
		if !isRet || len(ret.Results) != sig.Results().Len() {
			if isRet {
				ok = false
			}
			return true
		}
		rets++
		if x := ret.Results[idx]; !isNilIdent(info, x) && objOf(info, x) != made {
			ok = false
		}
		return true
	})
	if !ok || rets == 0 {
		return -1
	}
	return idx
}

// LoopHead: "created on this path" means created while handling the current operator.
func (c *attachClient) LoopHead(e *Engine, st *State, _ ast.Stmt) *State {
	return e.DropTags(st, "fresh:")
}

func (c *attachClient) PreAssign(e *Engine, st *State, lhs, rhs []ast.Expr, _ ast.Stmt) *State {
	for _, l := range lhs {
		sel, ok := ast.Unparen(l).(*ast.SelectorExpr)
		if !ok {
			continue
		}
		fld := selField(e.Info, sel)
		if fld == c.opF {
			c.opStore(e, st, sel, rhs)
			continue
		}
		if fld != c.sortF && fld != c.takeF {
			c.otherStore(e, st, sel, fld)
			continue
		}
		base := sel.X
		fresh := e.HasTag(st, base, "fresh:chainSubquery") || e.HasTag(st, base, "fresh:addr")
		key := fmt.Sprintf("%s store %s.%s in case %s", c.fn, exprStr(base), fld.Name(), c.caseOf(e, sel))
		if fresh {
			e.Site("C02/attach", key, sel, true, "target subquery was created on this path")
			continue
		}
		bk := e.CanonSt(st, base)
		if !bk.OK {
			e.Site("C02/attach", key, sel, false, "store target is not a trackable variable; cannot decide that no LIMIT/ORDER BY is pending")
			continue
		}
		takeNil := false
		if f := st.Get(bk.Key + "." + fldName(c.takeF)); f != nil && f.Nil == 1 {
			takeNil = true
		}
		nonNil := e.NonNil(st, base)
		var missing []string
		if !nonNil {
			missing = append(missing, exprStr(base)+" != nil")
		}
		if !takeNil {
			missing = append(missing, "no row limit pending on it ("+exprStr(base)+".take == nil): a LIMIT already attached would be applied after this operator although it was written before")
		}
		// a sort and a take may only be attached when the subquery's own operator keeps the column names
		if fld == c.sortF || fld == c.takeF {
			okAttach := false
			if f := st.Get("call:" + c.canAttach.FullName() + "(" + bk.Key + "." + fldName(c.opF) + ")"); f != nil && f.HasEq && f.Eq == "true" {
				okAttach = true
			}
			if f := st.Get(bk.Key + "." + fldName(c.opF)); f != nil {
				all := true
				for _, t := range c.needOut {
					if !hasStr(f.TyOut, t) {
						all = false
					}
				}
				if all || f.Nil == 1 {
					okAttach = true
				}
			}
			if !okAttach && fld == c.sortF {
				missing = append(missing, "the subquery's operator is known not to rename columns (canAttachSort): a sort attached to a projection/aggregation would resolve names against the wrong column set")
			}
		}
		if len(missing) == 0 {
			e.Site("C02/attach", key, sel, true, "guard facts: target non-nil, take == nil, canAttachSort(op)")
		} else {
			e.Site("C02/attach", key, sel, false, "attached to an existing subquery without: "+strings.Join(missing, "; "))
		}
	}
	return nil
}

// otherStore: any other field of a subquery that already exists (one that was not created on this path) may only be
// set while it is known to be unset: whatever it says was decided for the operators seen so far, and a later
// operator that folds itself into the same SELECT by setting it again would silently disappear.
func (c *attachClient) otherStore(e *Engine, st *State, sel *ast.SelectorExpr, fld *types.Var) {
	if fld == nil || !e.Reporting() || TypeStr(e.Info.TypeOf(sel.X)) != "*pql.subquery" {
		return
	}
	base := sel.X
	if e.HasTag(st, base, "fresh:chainSubquery") || e.HasTag(st, base, "fresh:addr") {
		return
	}
	key := fmt.Sprintf("%s store %s.%s in case %s", c.fn, exprStr(base), fldName(fld), c.caseOf(e, sel))
	unset := false
	if bk := e.CanonSt(st, base); bk.OK {
		if f := st.Get(bk.Key + "." + fldName(fld)); f != nil {
			unset = f.Nil == 1 || f.HasEq && (f.Eq == "false" || f.Eq == "0" || f.Eq == `""`)
		}
	}
	e.Site("C02/attach", key, sel, unset, "the field of the existing subquery is known to be unset here")
	if !unset {
		e.Site("C02/attach", key, sel, false, "a field of a subquery that already exists is set without knowing that it is still unset: an operator that folds itself into the previous SELECT a second time (or over an earlier decision) disappears from the result")
	}
}

// opStore: an operator may only be put onto a subquery that was created for it on this path, or onto one with
// nothing pending (no LIMIT; no ORDER BY unless the operator is a pure row filter, which commutes with a sort).
func (c *attachClient) opStore(e *Engine, st *State, sel *ast.SelectorExpr, rhs []ast.Expr) {
	base := sel.X
	key := fmt.Sprintf("%s store %s.%s in case %s", c.fn, exprStr(base), fldName(c.opF), c.caseOf(e, sel))
	if e.HasTag(st, base, "fresh:chainSubquery") || e.HasTag(st, base, "fresh:addr") {
		e.Site("C02/attach", key, sel, true, "target subquery was created on this path")
		return
	}
	bk := e.CanonSt(st, base)
	var missing []string
	if !bk.OK {
		missing = append(missing, "a trackable target")
	} else {
		if f := st.Get(bk.Key + "." + fldName(c.takeF)); f == nil || f.Nil != 1 {
			missing = append(missing, "no row limit pending on it: the operator would be evaluated before a LIMIT that was written before it")
		}
		sortNil := false
		if f := st.Get(bk.Key + "." + fldName(c.sortF)); f != nil && f.Nil == 1 {
			sortNil = true
		}
		filter := false
		if len(rhs) == 1 {
			if f := e.FactOf(st, rhs[0]); f != nil && len(f.TyIn) == 1 && f.TyIn[0] == "*parser.WhereOperator" {
				filter = true
			}
		}
		if !sortNil && !filter {
			missing = append(missing, "no sort pending on it (or the operator being a pure row filter): its ORDER BY would refer to the columns after this operator")
		}
		if f := st.Get(bk.Key + "." + fldName(c.opF)); f == nil || f.Nil != 1 {
			missing = append(missing, "no operator already stored on it")
		}
	}
	if len(missing) == 0 {
		e.Site("C02/attach", key, sel, true, "guard facts: existing subquery has no operator and nothing pending that the operator would cross")
	} else {
		e.Site("C02/attach", key, sel, false, "an operator is merged into an existing subquery without: "+strings.Join(missing, "; "))
	}
}

func (c *attachClient) caseOf(e *Engine, n ast.Node) string {
	name := "?"
	e.P.ancestors(n, e.Func, func(anc, _ ast.Node) bool {
		if cc, ok := anc.(*ast.CaseClause); ok {
			if _, isTS := e.P.Parent(e.P.Parent(cc)).(*ast.TypeSwitchStmt); isTS {
				if cc.List == nil {
					name = "default"
				} else {
					var ts []string
					for _, t := range cc.List {
						ts = append(ts, exprStr(t))
					}
					name = strings.Join(ts, ",")
				}
				return false
			}
		}
		return true
	})
	return name
}

func ruleC02Attach(p *Program, r *Run) {
	pkg := p.PQL
	info := pkg.TypesInfo
	fd := p.MustFunc(pkg, "splitQueries")
	fn := FuncName(pkg, fd)
	r.Saw(fn)
	sub := p.Named(pkg, "subquery")
	st := StructOf(sub)
	var sortF, takeF, opF *types.Var
	for i := 0; i < st.NumFields(); i++ {
		switch f := st.Field(i); {
		case TypeStr(f.Type()) == "*parser.SortOperator":
			sortF = f
		case TypeStr(f.Type()) == "*parser.TakeOperator":
			takeF = f
		case TypeStr(f.Type()) == "parser.TabularOperator":
			opF = f
		}
	}
	if sortF == nil || takeF == nil || opF == nil {
		fatalf("anchor not found: subquery fields of type *SortOperator/*TakeOperator/TabularOperator")
	}
	canFd := p.MustFunc(pkg, "canAttachSort")
	c := &attachClient{p: p, chain: FuncObj(pkg, p.MustFunc(pkg, "chainSubquery")), canAttach: FuncObj(pkg, canFd),
		sortF: sortF, takeF: takeF, opF: opF, fn: fn,
		needOut: []string{"*parser.ProjectOperator", "*parser.SummarizeOperator"}}
	sort.Strings(c.needOut)

	// canAttachSort's false-set, read from its type switch.
	r.Saw(FuncName(pkg, canFd))
	falseSet := p.canAttachRefuses()
	for _, t := range c.needOut {
		r.Check(falseSet[t], "C02/canattach", "pql.canAttachSort refuses "+t, p.Pos(canFd.Pos()),
			"operator that renames the columns in scope is in the refuse set",
			t+" is not refused by canAttachSort: a sort/take written after it would be merged into its SELECT and resolve column names against the columns before the projection/aggregation")
	}
	r.Floor("C02/canattach", 2)

	// constructor discipline: no subquery literal pre-sets sort/take/op.
	for _, f := range AllFuncs(pkg) {
		ast.Inspect(f.Body, func(n ast.Node) bool {
			cl, ok := n.(*ast.CompositeLit)
			if !ok || !types.Identical(info.TypeOf(cl), sub) {
				return true
			}
			bad := ""
			for _, el := range cl.Elts {
				if kv, ok := el.(*ast.KeyValueExpr); ok {
					if id, ok := kv.Key.(*ast.Ident); ok {
						if fv, _ := info.Uses[id].(*types.Var); (fv == sortF || fv == takeF) && !isNilIdent(info, kv.Value) {
							bad = id.Name // an explicit nil is what leaving the field out means
						}
					}
				} else {
					bad = "positional fields"
				}
			}
			key := FuncName(pkg, f) + " subquery literal"
			r.Check(bad == "", "C02/fresh", key, p.Pos(cl.Pos()), "a fresh subquery has no pending sort/take", "subquery literal pre-sets "+bad+": 'fresh' no longer implies 'nothing pending'")
			return true
		})
	}
	r.Floor("C02/fresh", 2)

	e := NewEngine(p, pkg, fd, c)
	e.Run(nil)
	for _, m := range e.Errs {
		r.Fail("C02/attach", fn+" engine", "-", m)
	}
	e.FlushSites(r)
	r.Floor("C02/attach", 4)

	ruleC02Top(p, r, fd, c)
}

// C02/top: `top N by k` = sort by k then take N on one subquery.
func ruleC02Top(p *Program, r *Run, fd *ast.FuncDecl, c *attachClient) {
	pkg := p.PQL
	info := pkg.TypesInfo
	fn := FuncName(pkg, fd)
	topT := types.NewPointer(p.Named(p.Parser, "TopOperator"))
	found := false
	for _, ts := range findTypeSwitches(info, fd.Body, nil) {
		for _, cc := range ts.Clauses {
			if len(ts.Types[cc]) != 1 || ts.Types[cc][0] == nil || !types.Identical(ts.Types[cc][0], topT) {
				continue
			}
			found = true
			opv := clauseVar(info, cc)
			var sortBase, takeBase ast.Expr
			var sortLit, takeLit *ast.CompositeLit
			ast.Inspect(cc, func(n ast.Node) bool {
				as, ok := n.(*ast.AssignStmt)
				if !ok {
					return true
				}
				// x.sort = &SortOperator{...}, or x.sort, x.take = desugar(op) with a helper that only builds the two
				rhs := as.Rhs
				if len(as.Rhs) == 1 && len(as.Lhs) > 1 {
					if call, isCall := ast.Unparen(as.Rhs[0]).(*ast.CallExpr); isCall {
						rhs = p.ExpandResults(call)
					}
				}
				if len(rhs) != len(as.Lhs) {
					return true
				}
				for i, l := range as.Lhs {
					sel, ok := ast.Unparen(l).(*ast.SelectorExpr)
					if !ok {
						continue
					}
					lit := litOf(p.Constructed(rhs[i]))
					switch selField(info, sel) {
					case c.sortF:
						sortBase, sortLit = sel.X, lit
					case c.takeF:
						takeBase, takeLit = sel.X, lit
					}
				}
				return true
			})
			key := fn + " case *parser.TopOperator"
			if sortBase == nil || takeBase == nil {
				r.Fail("C02/top", key, p.Pos(cc.Pos()), "top must store both a sort and a take on the subquery")
				continue
			}
			r.Check(sameExpr(info, sortBase, takeBase), "C02/top", key+" same subquery", p.Pos(cc.Pos()), "sort and take stored on the same subquery", "sort and take of `top` are stored on different subqueries")
			okCol := false
			if sortLit != nil {
				if terms := litField(info, sortLit, "Terms"); terms != nil {
					if tl, ok := ast.Unparen(terms).(*ast.CompositeLit); ok && len(tl.Elts) == 1 {
						if f := fieldSel(info, tl.Elts[0], opv); f != nil && f.Name() == "Col" {
							okCol = true
						}
					}
				}
			}
			r.Check(okCol, "C02/top", key+" sort term", p.Pos(cc.Pos()), "sort terms are exactly [op.Col]", "the sort built for `top` does not consist of exactly the operator's own column term")
			okRC := false
			if takeLit != nil {
				if rc := litField(info, takeLit, "RowCount"); rc != nil {
					if f := fieldSel(info, rc, opv); f != nil && f.Name() == "RowCount" {
						okRC = true
					}
				}
			}
			r.Check(okRC, "C02/top", key+" row count", p.Pos(cc.Pos()), "take row count is op.RowCount", "the take built for `top` does not use the operator's own row count")
		}
	}
	if !found {
		r.Fail("C02/top", fn+" case *parser.TopOperator", p.Pos(fd.Pos()), "no case for *parser.TopOperator in splitQueries")
	}
	r.Floor("C02/top", 3)
}

func litOf(e ast.Expr) *ast.CompositeLit {
	e = ast.Unparen(e)
	if u, ok := e.(*ast.UnaryExpr); ok && u.Op == token.AND {
		e = u.X
	}
	cl, _ := e.(*ast.CompositeLit)
	return cl
}

func litField(info *types.Info, cl *ast.CompositeLit, name string) ast.Expr {
	for _, el := range cl.Elts {
		if kv, ok := el.(*ast.KeyValueExpr); ok {
			if id, ok := kv.Key.(*ast.Ident); ok {
				if id.Name == name {
					return kv.Value
				}
				// a field that goes by another name now
				if f, isF := info.Uses[id].(*types.Var); isF && f.IsField() && fldName(f) == name {
					return kv.Value
				}
			}
		}
	}
	return nil
}

// canAttachRefuses: the operator types for which canAttachSort returns false, read from its type switch.
func (p *Program) canAttachRefuses() map[string]bool {
	pkg := p.PQL
	info := pkg.TypesInfo
	canFd := p.MustFunc(pkg, "canAttachSort")
	falseSet := map[string]bool{}
	for _, ts := range findTypeSwitches(info, canFd.Body, nil) {
		for _, cc := range ts.Clauses {
			retFalse := false
			for _, s := range cc.Body {
				if ret, ok := s.(*ast.ReturnStmt); ok && len(ret.Results) == 1 {
					if v := constOf(info, ret.Results[0]); v != nil && v.String() == "false" {
						retFalse = true
					}
				}
			}
			if retFalse {
				for _, t := range ts.Types[cc] {
					if t != nil {
						falseSet[TypeStr(t)] = true
					}
				}
			}
		}
	}
	return falseSet
}

// ruleC03AsName: the query named by `as T` is the pipeline up to that point and nothing more. A sort or row limit
// written after `as` must therefore not be merged into the named query (a later join reading T on its right-hand
// side would see the limited rows): canAttachSort refuses the as operator.
func ruleC03AsName(p *Program, r *Run) {
	canFd := p.MustFunc(p.PQL, "canAttachSort")
	r.Saw(FuncName(p.PQL, canFd))
	r.Check(p.canAttachRefuses()["*parser.AsOperator"], "C03/as-name", "pql.canAttachSort refuses *parser.AsOperator", p.Pos(canFd.Pos()),
		"a sort or row limit after `as T` gets a query of its own; T names the rows before it",
		"*parser.AsOperator is not refused by canAttachSort: `... | as T | take 1 | join (T | ...) on k` merges the LIMIT into the query named T, so the right-hand side of the join reads the limited rows instead of everything before `as`")
	r.Floor("C03/as-name", 1)
}
