package pc

import (
	"fmt"
	"go/ast"
	"go/token"
	"go/types"
	"strings"
)

// ---- C15: statement splitting cuts exactly at the lexer's semicolon tokens.

type splitClient struct {
	BaseClient
	InlinePredicates
	p        *Program
	fn       string
	source   types.Object
	scan     *types.Func
	tokens   types.Object // result of Scan(source)
	semi     string       // constant value of TokenSemi
	startVar types.Object
	slices   int
	direct   bool // the tokens are ranged over directly: for _, tok := range Scan(source)
}

// semiFact reports whether tokExpr.Kind == TokenSemi is known in st.
func (c *splitClient) semiFact(e *Engine, st *State, tok ast.Expr) bool {
	k := e.CanonSt(st, tok)
	if !k.OK {
		return false
	}
	if f := st.Get(k.Key + ".Kind"); f != nil && f.HasEq && f.Eq == c.semi {
		return true
	}
	// T[i] with i := slices.IndexFunc(T, isSemi) known not to be negative, T unchanged since, and isSemi a function
	// whose body is `return tok.Kind == TokenSemi`
	ix, ok := ast.Unparen(tok).(*ast.IndexExpr)
	if !ok {
		return false
	}
	call, ok := ast.Unparen(c.p.DefExpr(ix.Index)).(*ast.CallExpr)
	if !ok || len(call.Args) != 2 {
		return false
	}
	f := Callee(e.Info, call)
	if f == nil || f.Pkg() == nil || f.Pkg().Path() != "slices" || f.Name() != "IndexFunc" {
		return false
	}
	to := objOf(e.Info, ix.X)
	if to == nil || objOf(e.Info, call.Args[0]) != to || !c.p.unassignedBetween(call, ix, to) {
		return false
	}
	if fi := e.FactOf(st, ix.Index); fi == nil || fi.Lo == nil || *fi.Lo < 0 {
		return false
	}
	var body *ast.BlockStmt
	var param types.Object
	switch v := ast.Unparen(c.p.DefExpr(call.Args[1])).(type) {
	case *ast.FuncLit:
		body = v.Body
		if len(v.Type.Params.List) == 1 && len(v.Type.Params.List[0].Names) == 1 {
			param = e.Info.Defs[v.Type.Params.List[0].Names[0]]
		}
	case *ast.Ident:
		if fn, isFn := e.Info.Uses[v].(*types.Func); isFn {
			if d, _ := c.p.DeclOf(fn); d != nil && len(d.Type.Params.List) == 1 && len(d.Type.Params.List[0].Names) == 1 {
				body = d.Body
				param = e.Info.Defs[d.Type.Params.List[0].Names[0]]
			}
		}
	}
	if body == nil || param == nil || len(body.List) != 1 {
		return false
	}
	ret, ok := body.List[0].(*ast.ReturnStmt)
	if !ok || len(ret.Results) != 1 {
		return false
	}
	cmp, ok := ast.Unparen(ret.Results[0]).(*ast.BinaryExpr)
	if !ok || cmp.Op != token.EQL {
		return false
	}
	sel, ok := ast.Unparen(cmp.X).(*ast.SelectorExpr)
	if !ok || sel.Sel.Name != "Kind" || objOf(e.Info, sel.X) != param {
		return false
	}
	v := constOf(e.Info, cmp.Y)
	return v != nil && constKey(v) == c.semi
}

// spanField matches X.Span.<field> and returns X.
func spanField(info *types.Info, x ast.Expr, field string) ast.Expr {
	sel, ok := ast.Unparen(x).(*ast.SelectorExpr)
	if !ok || sel.Sel.Name != field {
		return nil
	}
	sel2, ok := ast.Unparen(sel.X).(*ast.SelectorExpr)
	if !ok || sel2.Sel.Name != "Span" {
		return nil
	}
	if TypeStr(info.TypeOf(sel2.X)) != "parser.Token" {
		return nil
	}
	return sel2.X
}

func (c *splitClient) PostAssign(e *Engine, st *State, lhs, rhs []ast.Expr, _ ast.Stmt) *State {
	if len(lhs) == 1 && len(rhs) == 1 {
		if call, ok := ast.Unparen(rhs[0]).(*ast.CallExpr); ok && Callee(e.Info, call) == c.scan {
			if len(call.Args) == 1 && objOf(e.Info, call.Args[0]) == c.source {
				c.tokens = objOf(e.Info, lhs[0])
			}
		}
	}
	return nil
}

func (c *splitClient) PreAssign(e *Engine, st *State, lhs, rhs []ast.Expr, stmt ast.Stmt) *State {
	st0 := st
	// assignments to a variable used as a slice bound of source
	for i, l := range lhs {
		if c.startVar == nil || objOf(e.Info, l) != c.startVar || i >= len(rhs) {
			continue
		}
		key := fmt.Sprintf("%s assignment to cut offset %s = %s", c.fn, c.startVar.Name(), exprStr(rhs[i]))
		if v, ok := constInt(e.Info, rhs[i]); ok && v == 0 {
			e.Site("C15/provenance", key, l, true, "initial offset 0")
			continue
		}
		st = st.WithExt("c15adv", bump(st.Ext("c15adv")))
		tok := spanField(e.Info, rhs[i], "End")
		ok := tok != nil && c.semiFact(e, st, tok) && c.fromTokens(e, tok)
		e.Site("C15/provenance", key, l, ok, "next piece starts at the End of a token known to be a semicolon token of Scan(source)")
		if !ok {
			e.Site("C15/provenance", key, l, false, "the start of the next piece is not the Span.End of a TokenSemi token of Scan(source): pieces and semicolons would not tile the source")
		}
	}
	if st != st0 {
		return st
	}
	return nil
}

// LoopHead / LoopBack: within one turn of a loop the cut offset moves past a semicolon exactly as often as a piece
// ending at a semicolon is taken - a semicolon that is passed without its piece loses the piece (and the caller's
// count of statements), a piece taken without moving on is taken again.
func (c *splitClient) LoopHead(e *Engine, st *State, loop ast.Stmt) *State {
	if st.Ext("c15adv") == "" && st.Ext("c15cut") == "" {
		return nil
	}
	return st.WithExt("c15adv", "").WithExt("c15cut", "")
}

func (c *splitClient) LoopBack(e *Engine, st *State, loop ast.Stmt) {
	adv, cut := st.Ext("c15adv"), st.Ext("c15cut")
	key := fmt.Sprintf("%s one piece per semicolon passed", c.fn)
	e.Site("C15/provenance", key, loop, adv == cut, "on every path through the loop body the cut offset is moved past a semicolon exactly when the piece before that semicolon is taken")
	if adv != cut {
		e.Site("C15/provenance", key, loop, false, fmt.Sprintf("a path through the loop moves the cut offset past %s semicolon(s) but takes %s piece(s): a statement (even an empty one) disappears from the result or is returned twice, and the pieces no longer correspond one to one to the semicolons of the source", orZero(adv), orZero(cut)))
	}
}

func orZero(s string) string {
	if s == "" {
		return "0"
	}
	return s
}

// fromTokens: tok is the value variable of a range over the Scan(source) result (or an element of it).
func (c *splitClient) fromTokens(e *Engine, tok ast.Expr) bool {
	// T[i] where T only ever holds Scan(source) or a part of its own earlier value
	if ix, ok := ast.Unparen(tok).(*ast.IndexExpr); ok {
		to := objOf(e.Info, ix.X)
		if to == nil {
			return false
		}
		return c.p.allDefsAre(ix.X, func(d ast.Expr) bool {
			if call, ok := d.(*ast.CallExpr); ok && Callee(e.Info, call) == c.scan && len(call.Args) == 1 && objOf(e.Info, call.Args[0]) == c.source {
				return true
			}
			if sl, ok := d.(*ast.SliceExpr); ok && objOf(e.Info, sl.X) == to {
				return true
			}
			return false
		})
	}
	o := objOf(e.Info, tok)
	if o == nil {
		return false
	}
	found := false
	ast.Inspect(e.Func.Body, func(n ast.Node) bool {
		rs, ok := n.(*ast.RangeStmt)
		if !ok || rs.Value == nil || objOf(e.Info, rs.Value) != o {
			return true
		}
		if c.tokens != nil && objOf(e.Info, rs.X) == c.tokens {
			found = true
		}
		// for _, tok := range Scan(source)
		if call, ok := ast.Unparen(rs.X).(*ast.CallExpr); ok && Callee(e.Info, call) == c.scan && len(call.Args) == 1 && objOf(e.Info, call.Args[0]) == c.source {
			found = true
			c.direct = true
		}
		return true
	})
	return found
}

func (c *splitClient) Visit(e *Engine, st *State, n ast.Node) *State {
	sl, ok := n.(*ast.SliceExpr)
	if !ok || objOf(e.Info, sl.X) != c.source {
		return nil
	}
	c.slices++
	key := fmt.Sprintf("%s slice %s", c.fn, exprStr(sl))
	lowOK := sl.Low == nil
	if sl.Low != nil {
		if v, ok := constInt(e.Info, sl.Low); ok && v == 0 {
			lowOK = true
		} else if o := objOf(e.Info, sl.Low); o != nil && o == c.startVar {
			lowOK = true // its assignments are checked separately
		}
	}
	highOK := false
	how := ""
	if sl.High == nil {
		// the tail: must not be inside the loop or under a condition
		top := false
		e.P.ancestors(sl, e.Func, func(anc, _ ast.Node) bool {
			switch anc.(type) {
			case *ast.ForStmt, *ast.RangeStmt, *ast.IfStmt, *ast.SwitchStmt, *ast.CaseClause:
				top = true
			}
			return true
		})
		highOK = !top
		how = "tail piece source[start:] taken unconditionally after the loop"
	} else if tok := spanField(e.Info, sl.High, "Start"); tok != nil {
		highOK = c.semiFact(e, st, tok) && c.fromTokens(e, tok)
		how = "piece ends at the Start of a token known to be a semicolon token of Scan(source)"
	}
	ok2 := lowOK && highOK
	e.Site("C15/provenance", key, sl, ok2, how)
	if !ok2 {
		e.Site("C15/provenance", key, sl, false, "a bound of this slice of the source is not 0, the running cut offset, or Span.Start of a TokenSemi token of Scan(source): the splitter would cut somewhere the lexer does not see a semicolon token")
	}
	if sl.High != nil {
		return st.WithExt("c15cut", bump(st.Ext("c15cut")))
	}
	return nil
}

func ruleC15(p *Program, r *Run) {
	pkg := p.Parser
	info := pkg.TypesInfo
	fd := p.MustFunc(pkg, "SplitStatements")
	fn := FuncName(pkg, fd)
	r.Saw(fn)
	semiC, ok := pkg.Types.Scope().Lookup("TokenSemi").(*types.Const)
	if !ok {
		fatalf("anchor not found: parser.TokenSemi")
	}
	c := &splitClient{p: p, fn: fn, scan: FuncObj(pkg, p.MustFunc(pkg, "Scan")), semi: constKey(semiC.Val())}
	c.source = info.Defs[fd.Type.Params.List[0].Names[0]]
	// the cut offset variable: the int variable used as the low bound of a slice of source
	ast.Inspect(fd.Body, func(n ast.Node) bool {
		if sl, ok := n.(*ast.SliceExpr); ok && objOf(info, sl.X) == c.source && sl.Low != nil {
			if o := objOf(info, sl.Low); o != nil {
				c.startVar = o
			}
		}
		return true
	})
	e := NewEngine(p, pkg, fd, c)
	e.Run(nil)
	for _, m := range e.Errs {
		r.Fail("C15/provenance", fn+" engine", "-", m)
	}
	e.FlushSites(r)
	r.Check(c.tokens != nil || c.direct, "C15/provenance", fn+" scans its own argument", p.Pos(fd.Pos()), "tokens come from Scan(source) of the very string that is sliced", "the splitter does not obtain its tokens from Scan(source): cut offsets would not refer to the sliced string")
	r.Floor("C15/provenance", 5)

	// every piece is appended: the sliced values flow into append of the result
	nAppend := 0
	ast.Inspect(fd.Body, func(n ast.Node) bool {
		if call, ok := n.(*ast.CallExpr); ok && IsBuiltinCall(info, call, "append") {
			for _, a := range call.Args[1:] {
				if sl, ok := ast.Unparen(a).(*ast.SliceExpr); ok && objOf(info, sl.X) == c.source {
					nAppend++
				}
			}
		}
		return true
	})
	r.Check(nAppend == c.sliceSites(fd, info), "C15/provenance", fn+" every slice of the source is appended to the result", p.Pos(fd.Pos()), "all pieces are kept", "a piece of the source is sliced but not appended (or appended from something else): text would be lost")

	// every token is examined (round 10): the loop that looks for the semicolons has no way out before the last
	// token - no break of that loop, no return and no goto inside it. A splitter that stops early (at an error token,
	// say) leaves the semicolons behind it inside one piece, while the lexer still reports them as tokens.
	nLoops := 0
	ast.Inspect(fd.Body, func(n ast.Node) bool {
		var body *ast.BlockStmt
		switch v := n.(type) {
		case *ast.RangeStmt:
			body = v.Body
		case *ast.ForStmt:
			body = v.Body
		default:
			return true
		}
		mentionsSemi := false
		ast.Inspect(body, func(m ast.Node) bool {
			if id, ok := m.(*ast.Ident); ok && info.Uses[id] == types.Object(semiC) {
				mentionsSemi = true
			}
			return !mentionsSemi
		})
		if !mentionsSemi {
			return true
		}
		nLoops++
		label := ""
		if ls, ok := p.Parent(n).(*ast.LabeledStmt); ok {
			label = ls.Label.Name
		}
		var exits []string
		var walk func(m ast.Node, inner bool)
		walk = func(m ast.Node, inner bool) {
			ast.Inspect(m, func(x ast.Node) bool {
				switch v := x.(type) {
				case *ast.FuncLit:
					return false
				case *ast.ForStmt, *ast.RangeStmt, *ast.SwitchStmt, *ast.TypeSwitchStmt, *ast.SelectStmt:
					if x != m {
						walk(x, true)
						return false
					}
				case *ast.ReturnStmt:
					exits = append(exits, "return at "+p.Pos(v.Pos()))
				case *ast.BranchStmt:
					switch {
					case v.Tok == token.GOTO:
						exits = append(exits, "goto at "+p.Pos(v.Pos()))
					case v.Tok == token.BREAK && v.Label == nil && !inner:
						exits = append(exits, "break at "+p.Pos(v.Pos()))
					case v.Tok == token.BREAK && v.Label != nil && v.Label.Name == label:
						exits = append(exits, "break at "+p.Pos(v.Pos()))
					}
				}
				return true
			})
		}
		walk(body, false)
		r.Check(len(exits) == 0, "C15/provenance", fmt.Sprintf("%s semicolon loop #%d examines every token", fn, nLoops), p.Pos(n.Pos()), "no break, return or goto leaves the loop that looks for the semicolons", "the loop that looks for the semicolons can be left before the last token ("+strings.Join(exits, ", ")+"): a semicolon token behind that point is not a cut, so the pieces are fewer than the lexer's semicolons plus one and a piece contains a semicolon token")
		return true
	})

	// Parse's own splitter: the function that hands Parse one statement's tokens must look for TokenSemi only.
	pFd0 := p.MustFunc(pkg, "Parse")
	var splitter *types.Func
	ast.Inspect(pFd0.Body, func(n ast.Node) bool {
		as, ok := n.(*ast.AssignStmt)
		if !ok || len(as.Rhs) != 1 || len(as.Lhs) != 1 || splitter != nil {
			return true
		}
		call, ok := as.Rhs[0].(*ast.CallExpr)
		if !ok || TypeStr(info.TypeOf(as.Lhs[0])) != "*parser.parser" {
			return true
		}
		if _, isLoop := p.Parent(p.Parent(as)).(*ast.ForStmt); !isLoop {
			return true
		}
		splitter = Callee(info, call)
		if splitter != nil {
			for _, a := range call.Args {
				if name := constName(info, a); name != "" && name != "TokenSemi" {
					splitter = nil
				}
			}
		}
		return true
	})
	kinds := map[string]bool{}
	ssName := "?"
	if splitter != nil {
		ssName = splitter.Name()
		if ssFd := p.FuncDecl(pkg, "parser."+splitter.Name()); ssFd != nil {
			r.Saw(FuncName(pkg, ssFd))
			ast.Inspect(ssFd.Body, func(n ast.Node) bool {
				switch v := n.(type) {
				case *ast.BinaryExpr:
					if v.Op == token.EQL || v.Op == token.NEQ {
						if name := constName(info, v.Y); strings.HasPrefix(name, "Token") {
							kinds[name] = true
						}
					}
				case *ast.CaseClause:
					for _, e := range v.List {
						if name := constName(info, e); strings.HasPrefix(name, "Token") {
							kinds[name] = true
						}
					}
				}
				return true
			})
		}
	}
	r.Check(splitter != nil && len(kinds) == 1 && kinds["TokenSemi"], "C15/parse-split", "parser.Parse statement splitter ("+ssName+") splits on TokenSemi only", p.Pos(pFd0.Pos()), "the parser's statement splitter tests exactly the lexer's semicolon token kind and nothing else (no bracket nesting)", fmt.Sprintf("the function that cuts Parse's input into statements looks at token kinds %v, not exactly TokenSemi: Parse and SplitStatements would disagree on statement boundaries (e.g. a `;` inside an unclosed bracket)", keysOf(kinds)))
	// Parse feeds it the tokens of Scan(query)
	pFd := p.MustFunc(pkg, "Parse")
	r.Saw(FuncName(pkg, pFd))
	okLit := false
	ast.Inspect(pFd.Body, func(n ast.Node) bool {
		cl, ok := n.(*ast.CompositeLit)
		if !ok || TypeStr(info.TypeOf(cl)) != "parser.parser" {
			return true
		}
		src, toks := litField(info, cl, "source"), litField(info, cl, "tokens")
		if src != nil && toks != nil {
			if call, ok := ast.Unparen(toks).(*ast.CallExpr); ok && Callee(info, call) == c.scan && len(call.Args) == 1 && sameExpr(info, call.Args[0], src) {
				okLit = true
			}
		}
		return true
	})
	r.Check(okLit, "C15/parse-split", "parser.Parse parser{source: q, tokens: Scan(q)}", p.Pos(pFd.Pos()), "the parser works on the tokens of the same string it reports positions for", "Parse does not construct its parser from Scan of its own source")
	r.Floor("C15/parse-split", 2)
}

func (c *splitClient) sliceSites(fd *ast.FuncDecl, info *types.Info) int {
	n := 0
	ast.Inspect(fd.Body, func(x ast.Node) bool {
		if sl, ok := x.(*ast.SliceExpr); ok && objOf(info, sl.X) == c.source {
			n++
		}
		return true
	})
	return n
}

func keysOf(m map[string]bool) []string {
	var out []string
	for k := range m {
		out = append(out, k)
	}
	return out
}
