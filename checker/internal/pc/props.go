package pc

func init() {
	register(PropertyMeta{
		ID:          "C02",
		Level:       "other",
		Explanation: "Decided on pql.splitQueries with the path-sensitive fact engine: (attach) every store to subquery.sort/.take targets a subquery created on this path (chainSubquery result or fresh literal) or one for which the facts `target != nil`, `target.take == nil` and, for sorts, `canAttachSort(target.op)` hold on every abstract path - so a LIMIT never moves across a later operator and a sort is never merged into a projection/aggregation; (canattach) canAttachSort refuses ProjectOperator and SummarizeOperator (read from its type switch); (fresh) no subquery literal pre-sets sort/take; (top) the TopOperator case stores sort [op.Col] and take op.RowCount on the same subquery; (clauses/sortdefaults) see rule list. Not decided: equality of result tables on a database.",
		Assumptions: commonAssumptions,
		Rules:       []string{"C02/attach", "C02/canattach", "C02/fresh", "C02/top", "C02/clauses", "C02/sortdefaults"},
	}, ruleC02Attach, ruleC02Clauses, func(p *Program, r *Run) { ruleSortDefaults(p, r, "C02/sortdefaults") })
	register(PropertyMeta{
		ID:          "C09",
		Level:       "other",
		Explanation: "Decided on parser/lex.go: (backup) typestate of the scanner's one-rune back-up - every prev() call, on every abstract path of the fact engine, follows a next() on the same scanner whose ok result is known true, with no other scanner method in between; (spans) every Token literal and errorToken call has span newSpan(start, s.pos|saved s.pos) or indexSpan(start) with start = s.pos saved as the first statement of the function or of the scan loop; (tables) Scan's dispatch read with path facts: each one-character token has no look-ahead, each two-character family (= ! < > /) yields the documented kind for the documented second character and otherwise gives the look-ahead back, every documented token is produced; (classes) first-character classes of the sub-scanners and isAlpha/isDigit/isHexDigit evaluated symbolically on U+0000..U+024F; (keywords) keyword table. Not decided: kinds and values of arbitrary lexemes, number normalisation, re-scan idempotence, accessor agreement.",
		Assumptions: commonAssumptions,
		Rules:       []string{"C09/backup", "C09/spans", "C09/tables", "C09/classes", "C09/keywords"},
	}, ruleC09Backup, ruleC09Spans)
	register(PropertyMeta{
		ID:          "C11",
		Level:       "other",
		Explanation: "parser.Walk is read as a table (case type -> visitor call, pushed child fields, guards). Decided: (handled) every dynamic type that can reach the worklist - roots of type Statement/Expr and every pushed field, interface-typed fields expanded to all module implementers - has a case, so the panicking default is dead; (complete) every node-bearing field of every case type is pushed exactly once (slices: in a loop over all indices; element types without a case: their node fields instead), two documented exceptions; (nil) optional fields (derived from explicit nil stores in the parser plus reviewed rows) are pushed only under a nil guard; (once) one visitor call per case with the case's node, all pushes gated on its result, one pop per iteration, root pushed once; (use) the compiler's visitor always returns true. Not decided: acyclicity/finite size of trees (assumed from the parser building fresh nodes), behaviour for trees built by hand.",
		Assumptions: append([]string{"the parser returns finite trees without sharing", "optional-field table = explicit `x.F = nil` stores in parser productions + reviewed rows (ProjectColumn.X, RenderProperty.Value)"}, commonAssumptions...),
		Rules:       []string{"C11/handled", "C11/complete", "C11/nil", "C11/once", "C11/use"},
	}, ruleC11)
	register(PropertyMeta{
		ID:          "C13",
		Level:       "other",
		Explanation: "Decided: (pair) every return of (*CompileOptions).Compile is (\"\", error known non-nil on that path) or (builder contents whose last write is the constant \";\", nil), and pql.Compile only forwards; (single) the query variable is known nil when a tabular statement is stored and known non-nil at the success return; (arity) for each row of the knownFunctions table the fact engine shows that when the writer first writes SQL the argument count lies exactly in the documented range, that every earlier return yields a non-nil error and every success return wrote something; (errcheck) every call in package pql to a module function returning error is returned directly or tested by `err != nil { return err }` at once; (gate-let/gate-join) at the emission of an identifier part in writeExpression every path carries ctx.mode != letExprMode and (quoted or name not $left/$right or ctx.mode == joinExprMode); (rowcount) rowCount's success returns carry `not a literal` or IsInteger(); (joinkind) the parser's join-kind lookup records an error on the miss edge that every later return carries. Not decided: 'every rule-abiding program compiles', placement at arbitrary depth.",
		Assumptions: commonAssumptions,
		Rules:       []string{"C13/pair", "C13/single", "C13/arity", "C13/errcheck", "C13/gate-let", "C13/gate-join", "C13/rowcount", "C13/joinkind"},
	}, ruleC13Pair, ruleC13Arity, ruleC13ErrCheck, ruleC13Gates, ruleC13Parser)
	register(PropertyMeta{
		ID:          "C16",
		Level:       "other",
		Explanation: "Decided on cmd/pql (run, main) with the fact engine: (prelude) every pql.Compile call in run receives a source whose leftmost concatenation operand is the accumulated let prelude; (readerr) every return after the `for scanner.Scan()` loop is reached only after Scanner.Err() was consulted and a non-nil result is returned; (sticky) every path on which logError was called returns an error known non-nil, and no error variable is reset to nil; (let-on-success) the prelude builder is only written under `err == nil` of the Compile call that validated the very statement written; (output) every write to the output is Fprintf(\"%s\\n\\n\", sql) of the SQL of the Compile call that just succeeded; (exit) RunE returns run's error without overwriting it while non-nil, main calls os.Exit with a non-zero constant and falls off the end only with a nil error. Not decided: byte-exact stdout for all scripts and layouts, splitting behaviour (C15), the built binary.",
		Assumptions: commonAssumptions,
		Rules:       []string{"C16/prelude", "C16/readerr", "C16/sticky", "C16/let-on-success", "C16/output", "C16/exit"},
	}, ruleC16)
	register(PropertyMeta{
		ID:          "C14",
		Level:       "proof",
		Explanation: "Effect analysis over the go/ssa form of every function of packages pql and parser (a superset of what the public entry points reach). Obligations, each discharged mechanically: (write-local) every Store, MapUpdate, append/copy/delete and every mutating standard-library call targets memory whose provenance class - computed by an interprocedural fixpoint over allocation sites, parameters (joined over all call sites; parameters of exported or escaping functions are caller-owned), globals, loaded contents and call results - is call-local only; (globals) no write to package-level state outside package initialisation except inside the closure passed to the sync.Once.Do of the same variable, and every access to such a variable's fields is dominated by that Do call; (concurrency/ambient) no go statement, channel operation, or call/import of time, rand, os, runtime, unsafe, reflect, net; (map-order) every range over a map only copies into a call-local map; sorted key lists are obtained through the reviewed effect table; (nil-opts) every dereference of the options receiver is dominated by `opts != nil`; (format) every fmt call has a constant format without %p and no bare pointer operand under %v; (call) every callee outside the module is in the reviewed effect table. Together: no shared mutable state, no ambient input, so equal inputs give equal outputs under any interleaving.",
		Assumptions: []string{"go/ssa and go/types model the source faithfully", "the standard-library functions in the reviewed effect table (strings, strconv, fmt, errors, unicode, utf8, slices.Sort/Clone, x/exp/maps.Keys, sync.Once) behave as documented and are themselves race-free", "no unsafe/reflect/cgo in the two library packages (asserted from their import sets)"},
		TrustedBase: []string{"go/packages + go/types + go/ssa (x/tools v0.29.0)", "reviewed effect table of standard-library callees in checker/internal/pc/rules_c14.go (mutatedArgs, freshResult)", "Go memory model: data-race freedom follows from absence of shared writable memory"},
		Rules:       []string{"C14/write-local", "C14/globals", "C14/call", "C14/concurrency", "C14/ambient", "C14/map-order", "C14/nil-opts", "C14/format"},
	}, ruleC14)
	register(PropertyMeta{
		ID:          "C15",
		Level:       "other",
		Explanation: "Decided on parser.SplitStatements with path facts: the tokens come from Scan(source) of the very string that is sliced; every bound of every slice of the source is 0, the running cut offset, or Span.Start of a token for which `Kind == TokenSemi` is known on that path and which ranges over those tokens; the cut offset is only ever assigned 0 or Span.End of such a token; the tail source[start:] is taken unconditionally after the loop; every slice is appended. Parse's own splitter tests exactly TokenSemi on the tokens of Scan(query). Hence both splitters cut exactly at the lexer's semicolon tokens and the pieces tile the source. Not decided: that a piece scanned alone yields the same tokens as in context (depends on every look-ahead of the lexer stopping before ';'); this rule would also fire on an equivalent re-implementation of tokenisation inside the splitter, which the property forbids in spirit.",
		Assumptions: commonAssumptions,
		Rules:       []string{"C15/provenance", "C15/parse-split"},
	}, ruleC15)
	register(PropertyMeta{
		ID:          "C10",
		Level:       "other",
		Explanation: "Decided: (union) for every AST type with a Span() method, every span-bearing field (type Span, type implementing Node, or a slice of such) is referenced by the method, so a node's extent contains all of its parts - these methods are never called by the test suite; (recorded) every value stored into a Span-typed field of an AST node, in the parser and in the compiler, is a token's span, nullSpan(), newSpan(tokenA.Span.Start, tokenB.Span.End), or a copy of an already recorded span - so every recorded span starts and ends on token boundaries or is marked invalid; (errors) every parseError is positioned with a token span or end-of-input (never nullSpan, because its Error method slices unguarded) and every other Error method that uses a span guards it with IsValid(); (slices) every slice of source text by span fields uses Start and End of one span that comes from a node's Span() or is IsValid()-guarded. Not decided: that each recorded span designates the right token on every input.",
		Assumptions: commonAssumptions,
		Rules:       []string{"C10/union", "C10/recorded", "C10/errors", "C10/slices"},
	}, ruleC10Union, ruleC10Recorded, ruleC10Errors, ruleC10Slices)
	register(PropertyMeta{
		ID:          "C07",
		Level:       "other",
		Explanation: "Decided as tables and call shapes of the parser: (prec) operatorPrecedence read from its switch: or < and < {== != < <= > >= =~ !~ in} < {+ -} < {* / %}, equal within a level, every other kind negative - only the order is compared; (assoc) with path facts in exprBinaryTrail: a BinaryExpr is built only when the operator's precedence is >= 0 and >= the level's minimum, its left operand is everything parsed so far, the right operand is extended only by a recursive call with minimum = current+c (c>=1) taken when the next operator binds strictly tighter, and a full expression starts at the weakest level; (in) a complete `x in (...)` continues the operator loop as the new left operand; (sign) + and - take a primaryExpr operand; (synonyms) each of the 14 operator keywords builds the documented node type and appends it, where/filter, sort/order, take/limit share a clause; (sortdefaults) asc/desc/nulls first/last set the documented flags and the compiler renders them. Not decided: the tree for every derivation, layout independence (these quantify over inputs).",
		Assumptions: commonAssumptions,
		Rules:       []string{"C07/prec", "C07/kinds", "C07/assoc", "C07/in", "C07/sign", "C07/synonyms", "C07/sortdefaults"},
	}, ruleC07Prec, ruleC07Assoc, ruleC07Shapes)
	register(PropertyMeta{
		ID:          "C01",
		Level:       "other",
		Explanation: "The expression writer is abstracted, by the path-sensitive fact engine, into a grammar of everything it can print (constant texts, quoted names/strings, raw values with their origin, and holes = calls to other writers, each with the node kinds that can reach it and the bracket depth). Decided on that derived grammar: (closed) every production gets a class Closed/Signed/Open from the SQL operators it writes at nesting depth 0 (fixpoint over the mutually recursive writers, including which kinds writeExpressionMaybeParen/Closed pass through bare, read from their own switches and from needsParens of every table row); every hole gets a required class from its neighbours (directly after an unspaced sign or before `[`: Closed; next to an infix/keyword operator: at most Signed); provided must not exceed required, for every kind that can flow there; (needsparens) a built-in whose rewrite is not Closed has needsParens; (unwrap) every paren-unwrapping loop continues with the inner expression; (optable) every binary operator the parser can build has a translation, binaryOps spells each operator as SQL does, == and != are wrapped in coalesce(..., FALSE) outside join mode, =~ and !~ lower both operands; (builtins) each documented built-in has the documented rewrite skeleton with each argument once and in order, other functions are written name(args in order). Not decided: that SQL computes the same value on every row (needs the semantics of both languages).",
		Assumptions: commonAssumptions,
		Rules:       []string{"C01/closed", "C01/needsparens", "C01/unwrap", "C01/optable", "C01/builtins"},
	}, ruleC01Closed, ruleC01Unwrap, func(p *Program, r *Run) { ruleOpTables(p, r, "C01") }, ruleC01Builtins)
	register(PropertyMeta{
		ID:          "C04",
		Level:       "other",
		Explanation: "On the derived output grammar: (taint) every non-constant text written into the SQL (outside the two sanitizers) has an allowed origin decided with path facts - a scope/constant-table lookup, a literal's value under the fact Kind == TokenNumber, a call's function name, already assembled SQL, or a %T/%d/%s-of-TokenKind format operand; anything else that carries PQL source text is reported; (handquote) no constant opens or closes a quote by hand; (escape) for quoteIdentifier and quoteSQLString the delimiter and the escape set are recovered from the per-byte branch facts and must contain the quote character (doubled) and the backslash (doubled), ClickHouse's escape character inside both quoted forms; (numbers) every number token takes its value from normalizeNumberValue, FormatUint(.,10) or the constant 0. Not decided: decoding of each SQL token by a real SQL lexer for all byte contents, numeric value preservation.",
		Assumptions: commonAssumptions,
		Rules:       []string{"C04/taint", "C04/handquote", "C04/escape", "C04/numbers"},
	}, ruleC04)
	register(PropertyMeta{
		ID:          "C05",
		Level:       "other",
		Explanation: "On the derived output grammar: (balance) every constant SQL text lexes cleanly with the checker's SQL token table, bracket depth ((), [], CASE/END) never goes negative on any abstract path and is zero at every success return of an emitting function and at every builder hand-off (String()), path-sensitively (correlated branches such as the innerunique parentheses are followed); (semicolon) exactly one constant contains ';' and it is Compile's final write; (dead) each of the six `unhandled/unsupported` placeholders sits in a default/else branch whose alternatives cover everything that can be constructed: Expr implementers vs writer cases, operators storable into a subquery vs (*subquery).write cases, literal kinds / sign kinds / binary operator kinds constructible by the parser vs handled ones, data sources, statements. Not decided: that the text parses under ClickHouse for every accepted program; CTE naming/usage.",
		Assumptions: commonAssumptions,
		Rules:       []string{"C05/balance", "C05/semicolon", "C05/dead"},
	}, ruleC05Balance, func(p *Program, r *Run) { ruleOpTables(p, r, "C05") })
	register(PropertyMeta{
		ID:          "C06",
		Level:       "other",
		Explanation: "Decided: (ctx) every exprContext literal that reaches the expression writer carries a scope whose provenance is the map Compile builds (directly, or through parameters fed by it at every call site) - so bindings are visible in every expression position, join conditions included; (one-reader) the scope map is consulted at exactly one site, in the identifier case of writeExpression, and the path facts there are: node is a QualifiedIdent, len(Parts) == 1, part not quoted - hence quoted identifiers, qualified names, function names, table names and aliases are never substituted; the scope is consulted before the built-in constants (order); (closed-value) the text stored for a let value is, by the class analysis of the derived grammar (C01), a Closed fragment and the only content of its buffer; (let-mode) let values are written with mode letExprMode; (after-query) the let hole is reached only with the query variable known nil; (order) the value is stored under the let's own name after being written; (copy) parameters are copied key by key into the fresh scope (C14 shows the caller's map is never written). Not decided: evaluation equivalence of the substituted SQL.",
		Assumptions: commonAssumptions,
		Rules:       []string{"C06/ctx", "C06/one-reader", "C06/order", "C06/closed-value", "C06/let-mode", "C06/after-query", "C06/copy"},
	}, ruleC06)
	register(PropertyMeta{
		ID:          "C03",
		Level:       "other",
		Explanation: "Decided: (kinds) the parser's join-kind table equals the documented {inner, innerunique, leftouter}, the compiler has a case for each, the default is innerunique, an unknown kind is an error, and - on the derived grammar of the join source, with path facts on the kind variable - SELECT DISTINCT wraps the left side exactly for innerunique, `JOIN` is written for inner/innerunique and `LEFT JOIN` for leftouter; (sides) the left input's subquery index is saved before the parenthesised pipeline is compiled by a recursive call on op.Right and never reassigned, the right input is the last subquery that recursion appended, and these are the names written on the two sides; (rewrite) a bare column name becomes $left.k == $right.k (same column, unquoted aliases), only for unquoted unqualified non-constant identifiers, and all conditions are left-folded with `and`; (gate) the ON condition is written in join mode and the plain `=` is written only when path facts show one operand mentions $left and one $right (hasJoinTerms, which relies on Walk: C11). Not decided: join result equality on databases.",
		Assumptions: commonAssumptions,
		Rules:       []string{"C03/kinds", "C03/sides", "C03/rewrite", "C03/gate"},
	}, ruleC03)
	register(PropertyMeta{
		ID:          "C08",
		Level:       "other",
		Explanation: "Decided, as path rules over every production of the parser: (endsplit) for every sub-parser obtained from split/splitSemi, on every abstract path to a return or to the end of the variable's scope, either endSplit() was called and its result joined into an error that is assigned or returned, or the path itself tested `pos < len(tokens)` to be false, or a fresh error was recorded after the split - so no token inside a bracketed range is dropped silently; (notfound) the parser treats a notFoundError as `this production is absent` (the caller may try an alternative or end a list), which is only sound if nothing was consumed: an interprocedural fixpoint computes, per production and closure, whether it may return a not-found error and whether it may do so after consuming tokens (token count on the receiver cursor: next +1, prev -1, save/restore of pos, successful sub-productions 'more'; makeErrorOpaque clears; joinErrors joins; case split on callee post-conditions), and every isNotFound(e) decision site must not be reachable by such a dirty not-found; (errortoken) no production compares against or switches on TokenError except to word an error, and reading past the end yields TokenError. Not decided: that re-printing the tree gives back the token sequence for all inputs.",
		Assumptions: append([]string{"within one production, a hard (non not-found) error makes the caller bail out; token counts are tracked under the hypothesis that an error being propagated is the not-found one"}, commonAssumptions...),
		Rules:       []string{"C08/endsplit", "C08/notfound", "C08/errortoken"},
	}, ruleC08EndSplit, ruleC08NotFound, ruleC08ErrorToken)
	register(PropertyMeta{
		ID:          "C12",
		Level:       "other",
		Explanation: "Decided over every function of the two library packages (generated tokenkind_string.go exempt as a unit): (loop) all for statements are enumerated; range loops, counted loops and shrink loops are bounded; every other loop needs a witness on every abstract back-edge path: W-consume = the net number of successful cursor reads (next +1, a failed read at end of input +0, prev -1, sub-scanners/productions by their summarised minimum net consumption, with zero-consumption returns that the unique caller's dispatch guard excludes discarded) is >= 1; W-descend (paren unwrap, C01/unwrap); W-worklist (Walk, C11); one reviewed arithmetic argument (exprBinaryTrail's inner loop, whose guard facts C07/assoc checks); (cursor) parser.prev() directly follows a next() of the same function and pos is only restored to a position saved in the same production, so consumption is never negative; (recursion) in every strongly connected component of the call graph (static calls, function-table dispatch) the subgraph of calls that pass the same node on the same cursor is acyclic - every cycle descends into a child, runs on a sub-parser or follows a consumed token; (panic) explicit panics are dead by table arguments (C11/handled; inner switch repeats the outer case list), no single-value type assertions, every index/slice expression is discharged on every path by a guard idiom over the path facts (I-const, I-last, I-loop, I-rel, I-pos) or is one of the reviewed rows listed in the checker with its invariant, three of which are themselves checked (QualifiedIdent non-empty, splitQueries post-condition, variadic call sites). Not decided: wall-clock bounds, stack depth, nil dereferences beyond C11/nil and C14/nil-opts, the reviewed rows' invariants that are only argued.",
		Assumptions: append([]string{"reviewed rows in checker/internal/pc/rules_c12b.go (reviewedIndex) and the reviewed loop of exprBinaryTrail are argued by hand, not mechanically"}, commonAssumptions...),
		Rules:       []string{"C12/loop", "C12/cursor", "C12/recursion", "C12/panic", "C12/nonempty", "C12/post", "C12/variadic"},
	}, ruleC12Loops, ruleC12Cursor, ruleC12Recursion, ruleC12Panic)
}
