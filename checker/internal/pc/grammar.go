package pc

import (
	"fmt"
	"go/ast"
	"go/constant"
	"go/token"
	"go/types"
	"os"
	"sort"
	"strconv"
	"strings"
)

// ---------- a small SQL token table (specification side: how the target dialect reads text)

type sqlTok struct {
	Kind  string // ident, kw, num, str, qid, op, kwop, open, close, comma, semi, dot, comment, BAD
	Text  string
	Lead  bool // preceded by white space (or start of the constant)
	Trail bool // followed by white space (or end of the constant)
}

var sqlKeywordOps = map[string]bool{"AND": true, "OR": true, "NOT": true, "IN": true, "IS": true, "LIKE": true, "BETWEEN": true}

// clause keywords and other delimiters: an expression next to one of these is not regrouped.
var sqlDelimiterKeywords = map[string]bool{
	"SELECT": true, "FROM": true, "WHERE": true, "GROUP": true, "BY": true, "ORDER": true, "LIMIT": true, "AS": true, "ON": true,
	"JOIN": true, "LEFT": true, "WITH": true, "DISTINCT": true, "WHEN": true, "THEN": true, "ELSE": true, "ASC": true, "DESC": true,
	"NULLS": true, "FIRST": true, "LAST": true, "FILTER": true, "CASE": true, "END": true,
}

func sqlTokenize(s string) []sqlTok {
	var out []sqlTok
	i := 0
	isSpace := func(b byte) bool { return b == ' ' || b == '\n' || b == '\t' || b == '\r' }
	isAl := func(b byte) bool { return b == '_' || b == '$' || 'a' <= b && b <= 'z' || 'A' <= b && b <= 'Z' }
	isDig := func(b byte) bool { return '0' <= b && b <= '9' }
	add := func(kind, text string, start, end int) {
		lead := start > 0 && isSpace(s[start-1])
		trail := end < len(s) && isSpace(s[end])
		out = append(out, sqlTok{Kind: kind, Text: text, Lead: lead, Trail: trail})
	}
	for i < len(s) {
		b := s[i]
		switch {
		case isSpace(b):
			i++
		case isAl(b):
			j := i
			for j < len(s) && (isAl(s[j]) || isDig(s[j])) {
				j++
			}
			w := s[i:j]
			up := strings.ToUpper(w)
			switch {
			case sqlKeywordOps[up]:
				add("kwop", up, i, j)
			case sqlDelimiterKeywords[up]:
				add("kw", up, i, j)
			default:
				add("ident", w, i, j)
			}
			i = j
		case isDig(b):
			j := i
			for j < len(s) && (isDig(s[j]) || s[j] == '.') {
				j++
			}
			add("num", s[i:j], i, j)
			i = j
		case b == '\'' || b == '"':
			j := i + 1
			closed := false
			for j < len(s) {
				if s[j] == b {
					if j+1 < len(s) && s[j+1] == b {
						j += 2
						continue
					}
					closed = true
					j++
					break
				}
				j++
			}
			if !closed {
				add("BAD", "unterminated "+string(b)+"-quoted token", i, len(s))
				return out
			}
			if b == '\'' {
				add("str", s[i:j], i, j)
			} else {
				add("qid", s[i:j], i, j)
			}
			i = j
		case b == '/' && i+1 < len(s) && s[i+1] == '*':
			j := strings.Index(s[i+2:], "*/")
			if j < 0 {
				add("BAD", "unterminated comment", i, len(s))
				return out
			}
			add("comment", s[i:i+2+j+2], i, i+2+j+2)
			i = i + 2 + j + 2
		case b == '-' && i+1 < len(s) && s[i+1] == '-':
			add("BAD", "comment opener --", i, len(s))
			return out
		case b == '(' || b == '[':
			add("open", string(b), i, i+1)
			i++
		case b == ')' || b == ']':
			add("close", string(b), i, i+1)
			i++
		case b == ',':
			add("comma", ",", i, i+1)
			i++
		case b == ';':
			add("semi", ";", i, i+1)
			i++
		case b == '.':
			add("dot", ".", i, i+1)
			i++
		default:
			two := ""
			if i+1 < len(s) {
				two = s[i : i+2]
			}
			switch two {
			case "<>", "<=", ">=", "||", "!=":
				add("op", two, i, i+2)
				i += 2
				continue
			}
			switch b {
			case '=', '<', '>', '+', '-', '*', '/', '%':
				add("op", string(b), i, i+1)
				i++
			default:
				add("BAD", fmt.Sprintf("unexpected byte %q", b), i, i+1)
				i++
			}
		}
	}
	return out
}

// ---------- emission events

type emitEvent struct {
	ID      int
	Func    *ast.FuncDecl
	FnName  string
	Call    *ast.CallExpr
	Kind    string // T, RAW, Q, S, HOLE, DISPATCH (f.write), EXIT
	Text    string // T
	Arg     ast.Expr
	Callee  *types.Func // HOLE
	Builder string      // canonical key of the builder
	Verb    string      // RAW from a format verb
	Root    ast.Node    // the call in Func's own body this event belongs to (the outermost in-place helper call, or Call)
	Frame   string      // in-place call context ("" = written directly in Func)
}

// eventOcc is one abstract path state reaching an event.
type eventOcc struct {
	Ev       *emitEvent
	Prev     int // id of the previous event on the same builder in this function; -1 = start
	Depth    [3]int
	Kinds    []string // kinds of the function's Expr parameter on this path (nil = function has none)
	St       *State
	Origin   string   // RAW: where the written value comes from (computed with the path facts)
	ArgKinds []string // HOLE: kinds the argument can have on this path (from its static type and path facts)
	ArgKey   string   // HOLE: canonical path of the argument ("" when it has none, e.g. a node built on the spot)
	XKey     string   // canonical path of the function's node parameter
}

type grammar struct {
	p        *Program
	events   []*emitEvent
	byCall   map[string][]*emitEvent
	absorbed map[*types.Func]bool // small helpers without a single node parameter: interpreted in place at every call site
	occs     []*eventOcc
	exprAll  []string // all Expr kinds (minus ParenExpr)
	kf       []kfRow  //
	fnDecl   map[*types.Func]*ast.FuncDecl
	emitFns  map[*types.Func]bool // functions taking a *strings.Builder
	engErrs  []string
	exits    []*eventOcc // EXIT occurrences (success returns and String() hand-offs)
}

type grammarClient struct {
	BaseClient
	g       *grammar
	fd      *ast.FuncDecl
	fn      string
	eng     *Engine
	xParam  types.Object // Expr-typed parameter, if any
	sbParam types.Object
	kfVar   map[string]bool
}

func (p *Program) Grammar() *grammar {
	if p.gram != nil {
		return p.gram
	}
	g := &grammar{p: p, byCall: map[string][]*emitEvent{}, absorbed: map[*types.Func]bool{}, fnDecl: map[*types.Func]*ast.FuncDecl{}, emitFns: map[*types.Func]bool{}}
	p.gram = g
	pkg := p.PQL
	info := pkg.TypesInfo
	for _, t := range p.Implementers(p.Iface(p.Parser, "Expr")) {
		g.exprAll = append(g.exprAll, TypeStr(t))
	}
	sort.Strings(g.exprAll)
	g.kf = p.knownFunctions()
	var fds []*ast.FuncDecl
	for _, fd := range AllFuncs(pkg) {
		g.fnDecl[FuncObj(pkg, fd)] = fd
		if builderParam(info, fd) != nil {
			g.emitFns[FuncObj(pkg, fd)] = true
		}
	}
	for _, fd := range AllFuncs(pkg) {
		uses := builderParam(info, fd) != nil
		if !uses {
			ast.Inspect(fd.Body, func(n ast.Node) bool {
				// a builder declared by value: var sb strings.Builder / sb := strings.Builder{}
				if id, ok := n.(*ast.Ident); ok {
					if v, isVar := info.Defs[id].(*types.Var); isVar && !v.IsField() && TypeStr(v.Type()) == "strings.Builder" {
						uses = true
					}
				}
				if call, ok := n.(*ast.CallExpr); ok && IsBuiltinCall(info, call, "new") && len(call.Args) == 1 && TypeStr(info.TypeOf(call.Args[0])) == "strings.Builder" {
					uses = true
				}
				return true
			})
		}
		if uses {
			fds = append(fds, fd)
		}
	}
	g.computeAbsorbed()
	for _, fd := range fds {
		if g.absorbed[FuncObj(pkg, fd)] {
			continue // interpreted in place at its call sites
		}
		c := &grammarClient{g: g, fd: fd, fn: FuncName(pkg, fd), kfVar: map[string]bool{}}
		c.sbParam = builderParam(info, fd)
		for _, f := range fd.Type.Params.List {
			if TypeStr(info.TypeOf(f.Type)) == "parser.Expr" && len(f.Names) == 1 {
				c.xParam = info.Defs[f.Names[0]]
			}
		}
		e := NewEngine(p, pkg, fd, c)
		c.eng = e
		init := newState()
		if c.sbParam != nil {
			bk := e.objKey(c.sbParam)
			init = init.WithExt("last:"+bk, "-1").WithExt("depth:"+bk, "0,0,0")
		}
		e.Run(init)
		for _, m := range e.Errs {
			g.engErrs = append(g.engErrs, c.fn+": "+m)
		}
	}
	return g
}

// nodeParamCount: parameters that carry a syntax-tree node (parser.Expr or an implementation of it).
func (g *grammar) nodeParamCount(fd *ast.FuncDecl) int {
	info := g.p.Info
	iface := g.p.Iface(g.p.Parser, "Expr")
	n := 0
	for _, f := range fd.Type.Params.List {
		t := info.TypeOf(f.Type)
		if t == nil {
			continue
		}
		if TypeStr(t) == "parser.Expr" || types.Implements(t, iface) {
			k := len(f.Names)
			if k == 0 {
				k = 1
			}
			n += k
		}
	}
	return n
}

// computeAbsorbed: unexported helpers that write SQL text, are not productions over a single node, are small,
// not self-recursive, and are only ever called directly from function bodies (so every call can be interpreted in place).
func (g *grammar) computeAbsorbed() {
	info := g.p.Info
	type useInfo struct{ calls, other int }
	uses := map[*types.Func]*useInfo{}
	for fn := range g.emitFns {
		uses[fn] = &useInfo{}
	}
	for _, pkg := range g.p.All {
		for _, f := range pkg.Syntax {
			var litDepth int
			var visit func(n ast.Node) bool
			visit = func(n ast.Node) bool {
				switch x := n.(type) {
				case *ast.FuncLit:
					litDepth++
					ast.Inspect(x.Body, visit)
					litDepth--
					return false
				case *ast.CallExpr:
					if fn := Callee(info, x); fn != nil && uses[fn] != nil {
						if litDepth == 0 {
							uses[fn].calls++
						} else {
							uses[fn].other++
						}
						// the callee identifier itself is accounted for here
						for _, a := range x.Args {
							ast.Inspect(a, visit)
						}
						if sel, ok := ast.Unparen(x.Fun).(*ast.SelectorExpr); ok {
							ast.Inspect(sel.X, visit)
						}
						return false
					}
				case *ast.Ident:
					if fn, ok := info.Uses[x].(*types.Func); ok && uses[fn] != nil {
						uses[fn].other++
					}
				}
				return true
			}
			ast.Inspect(f, visit)
		}
	}
	for fn, fd := range g.fnDecl {
		u := uses[fn]
		if u == nil || fn.Exported() || u.calls == 0 || u.other > 0 {
			continue
		}
		switch fnName(fn) {
		case "quoteIdentifier", "quoteSQLString":
			continue // the sanitizers are events of their own
		}
		if !smallBody(fd) {
			continue
		}
		if g.nodeParamCount(fd) == 1 && (u.calls != 1 || g.p.recordedFunc(fn)) {
			// a writer for one kind of node is a production of its own - unless it is a helper that did not exist on
			// the reviewed tree and is called from one place (a case body moved out of its switch)
			continue
		}
		self := false
		ast.Inspect(fd.Body, func(n ast.Node) bool {
			if call, ok := n.(*ast.CallExpr); ok && Callee(info, call) == fn {
				self = true
			}
			return true
		})
		if self {
			continue
		}
		g.absorbed[fn] = true
		if os.Getenv("PQLCHECK_DEBUG") != "" {
			fmt.Fprintf(os.Stderr, "grammar: helper %s is interpreted in place\n", fn.FullName())
		}
	}
}

func parseDepth(s string) (d [3]int) {
	parts := strings.Split(s, ",")
	for i := 0; i < 3 && i < len(parts); i++ {
		d[i], _ = strconv.Atoi(parts[i])
	}
	return
}

func fmtDepth(d [3]int) string { return fmt.Sprintf("%d,%d,%d", d[0], d[1], d[2]) }

// applyDepth updates bracket depths by the tokens of a constant; returns the minimum reached.
func applyDepth(d [3]int, toks []sqlTok) (out [3]int, min int) {
	out = d
	for _, t := range toks {
		switch {
		case t.Kind == "open" && t.Text == "(":
			out[0]++
		case t.Kind == "close" && t.Text == ")":
			out[0]--
		case t.Kind == "open" && t.Text == "[":
			out[1]++
		case t.Kind == "close" && t.Text == "]":
			out[1]--
		case t.Kind == "kw" && t.Text == "CASE":
			out[2]++
		case t.Kind == "kw" && t.Text == "END":
			out[2]--
		}
		for _, v := range out {
			if v < min {
				min = v
			}
		}
	}
	return
}

func (c *grammarClient) event(call *ast.CallExpr, idx int, mk func() *emitEvent) *emitEvent {
	return c.eventV(call, idx, "", mk)
}

// eventV: events are identified by (root function, in-place call context, call, index, variant).
func (c *grammarClient) eventV(call *ast.CallExpr, idx int, variant string, mk func() *emitEvent) *emitEvent {
	e := c.eng
	key := fmt.Sprintf("%s|%s|%d|%s", c.fn, e.FrameKey(), call.Pos(), variant)
	evs := c.g.byCall[key]
	for len(evs) <= idx {
		evs = append(evs, nil)
	}
	if evs[idx] == nil {
		ev := mk()
		ev.ID = len(c.g.events)
		ev.Func = c.fd
		ev.FnName = c.fn
		ev.Call = call
		ev.Root = call
		ev.Frame = e.FrameKey()
		if fr := e.Frames(); len(fr) > 0 {
			ev.Root = fr[0].Call
		}
		c.g.events = append(c.g.events, ev)
		evs[idx] = ev
	}
	c.g.byCall[key] = evs
	return evs[idx]
}

// quoteParam: arg names a parameter of a helper interpreted in place whose argument is a constant (not a byte of
// the value being copied, which must stay a RAW event).
func (c *grammarClient) quoteParam(e *Engine, arg ast.Expr) bool {
	o := objOf(e.Info, arg)
	if o == nil {
		return false
	}
	for _, fr := range e.Frames() {
		if a, ok := fr.Bind[o]; ok && constOf(e.Info, e.ResolveExpr(a)) != nil {
			return true
		}
	}
	return false
}

// Inline: helpers that write SQL but are not productions over one node are interpreted in place.
func (c *grammarClient) Inline(e *Engine, call *ast.CallExpr, callee *types.Func, decl *ast.FuncDecl) bool {
	if c.g.absorbed[callee] || inlineClosure(e, decl) {
		return true // also local closures (writeFrom := func(keyword string) {...})
	}
	// helpers that only compute a value (a keyword chosen by a switch, a predicate) are looked into as well
	return !c.g.emitFns[callee] && e.pureModuleFunc(callee) && smallBody(decl) && !c.g.p.stripsParens(callee)
}

// kindsOf: the kinds the function's Expr parameter can have in st (with sub-kinds for calls).
func (c *grammarClient) kindsOf(e *Engine, st *State) []string {
	if c.xParam == nil {
		return nil
	}
	f := st.Get(e.objKey(c.xParam))
	var base []string
	switch {
	case f != nil && f.TyIn != nil:
		base = f.TyIn
	case f != nil && len(f.TyOut) > 0:
		for _, k := range c.g.exprAll {
			if !hasStr(f.TyOut, k) {
				base = append(base, k)
			}
		}
	default:
		base = c.g.exprAll
	}
	out := []string{}
	for _, k := range base {
		if k != "*parser.CallExpr" {
			out = append(out, k)
			continue
		}
		// sub-kinds: generic call or one of the known functions, restricted by what is known about the table entry
		nilness, needs := 0, 0 // 0 unknown, 1 nil/false, 2 nonnil/true
		if info := st.Ext("kfinfo"); info != "" {
			// what was known about a table-entry variable when it went out of scope
			fmt.Sscanf(info, "%d,%d", &nilness, &needs)
		}
		for kv := range c.kfVar {
			if ff := st.Get(kv); ff != nil {
				if ff.Nil == 1 {
					nilness = 1
				} else if ff.Nil == 2 {
					nilness = 2
				}
			}
			if nf := st.Get(kv + ".needsParens"); nf != nil && nf.HasEq {
				if nf.Eq == "true" {
					needs = 2
				} else {
					needs = 1
				}
			}
		}
		if nilness != 2 && needs == 0 {
			out = append(out, "*parser.CallExpr:generic")
		}
		if nilness != 1 {
			for _, row := range c.g.kf {
				if needs == 2 && !row.NeedsParens || needs == 1 && row.NeedsParens {
					continue
				}
				out = append(out, "*parser.CallExpr:"+row.Name)
			}
		}
	}
	sort.Strings(out)
	return out
}

// ScopeEnd: what is known about the rewrite-table entry of the current call node outlives the variable holding it
// (`needsParens := f != nil && f.needsParens` computed inside a switch case, tested after it).
func (c *grammarClient) ScopeEnd(e *Engine, st *State, n ast.Node) *State {
	if len(c.kfVar) == 0 {
		return nil
	}
	lo, hi := e.P.Fset.Position(n.Pos()).Offset, e.P.Fset.Position(n.End()).Offset
	for kv := range c.kfVar {
		if !extMentionsScope(kv, lo, hi) {
			continue
		}
		nilness, needs := 0, 0
		if ff := st.Get(kv); ff != nil {
			if ff.Nil == 1 {
				nilness = 1
			} else if ff.Nil == 2 {
				nilness = 2
			}
		}
		if nf := st.Get(kv + ".needsParens"); nf != nil && nf.HasEq {
			if nf.Eq == "true" {
				needs = 2
			} else {
				needs = 1
			}
		}
		if nilness != 0 || needs != 0 {
			return st.WithExt("kfinfo", fmt.Sprintf("%d,%d", nilness, needs))
		}
	}
	return nil
}

func (c *grammarClient) PostAssign(e *Engine, st *State, lhs, rhs []ast.Expr, _ ast.Stmt) *State {
	// var sb strings.Builder: a fresh builder held by value
	if rhs == nil {
		for _, l := range lhs {
			if isBuilder(e.Info, l) {
				if k := e.CanonSt(st, l); k.OK {
					st = st.WithExt("last:"+k.Key, "-1").WithExt("depth:"+k.Key, "0,0,0")
				}
			}
		}
		return st
	}
	changed := false
	// the node parameter is replaced: what was known about its table entry no longer applies
	for _, l := range lhs {
		if c.xParam != nil && objOf(e.Info, l) == c.xParam && st.Ext("kfinfo") != "" {
			st = st.WithExt("kfinfo", "")
			changed = true
		}
	}
	// x = unparen(x): a helper all of whose returns are known not to be a ParenExpr
	if len(rhs) == 1 && len(lhs) == 1 {
		if call, ok := ast.Unparen(rhs[0]).(*ast.CallExpr); ok {
			if f := Callee(e.Info, call); f != nil && c.g.p.stripsParens(f) {
				if k := e.CanonSt(st, lhs[0]); k.OK {
					if n := e.assumeTypeKeyStr(st, k, []string{"*parser.ParenExpr"}, false, false); n != nil {
						st = n
						changed = true
					}
				}
			}
		}
	}
	// f := initKnownFunctions()[x.Func.Name]
	if len(rhs) == 1 && len(lhs) >= 1 {
		// sql, ok := ctx.scope[name] / table[name]: where the text came from travels with the value (through the
		// results of a lookup helper, too)
		if ix, ok := ast.Unparen(rhs[0]).(*ast.IndexExpr); ok {
			if org := mapOrigin(e.Info, ix); org != "" {
				st = e.SetTag(st, lhs[0], "origin:"+org)
				changed = true
			}
		}
		// sqlOp, ok := binaryOpSQL(x.Op): the operator table kept as a function
		if call, ok := ast.Unparen(rhs[0]).(*ast.CallExpr); ok {
			if _, _, tf := c.g.p.binaryOpTable(); tf != nil && Callee(e.Info, call) == tf {
				st = e.SetTag(st, lhs[0], "origin:constmap:binaryOps")
				changed = true
			}
		}
		if ix, ok := ast.Unparen(rhs[0]).(*ast.IndexExpr); ok {
			if call, ok := ast.Unparen(ix.X).(*ast.CallExpr); ok {
				if f := Callee(e.Info, call); f != nil && fnName(f) == "initKnownFunctions" {
					if k := e.CanonSt(st, lhs[0]); k.OK {
						c.kfVar[k.Key] = true
					}
				}
			}
		}
		// a fresh builder
		if lit, ok := ast.Unparen(rhs[0]).(*ast.CompositeLit); ok && len(lit.Elts) == 0 && isBuilder(e.Info, lhs[0]) {
			if k := e.CanonSt(st, lhs[0]); k.OK {
				return st.WithExt("last:"+k.Key, "-1").WithExt("depth:"+k.Key, "0,0,0")
			}
		}
		if call, ok := ast.Unparen(rhs[0]).(*ast.CallExpr); ok && IsBuiltinCall(e.Info, call, "new") && isBuilder(e.Info, lhs[0]) {
			if k := e.CanonSt(st, lhs[0]); k.OK {
				return st.WithExt("last:"+k.Key, "-1").WithExt("depth:"+k.Key, "0,0,0")
			}
		}
	}
	if changed {
		return st
	}
	return nil
}

func (c *grammarClient) occ(e *Engine, st *State, ev *emitEvent, bk string) *State {
	prev, _ := strconv.Atoi(st.Ext("last:" + bk))
	if st.Ext("last:"+bk) == "" {
		prev = -2 // builder of unknown history
	}
	d := parseDepth(st.Ext("depth:" + bk))
	if e.Reporting() {
		o := &eventOcc{Ev: ev, Prev: prev, Depth: d, Kinds: c.kindsOf(e, st), St: st}
		if ev.Kind == "RAW" {
			o.Origin = c.rawOrigin(e, st, ev)
		}
		if ev.Kind == "HOLE" && ev.Arg != nil {
			if k := e.CanonSt(st, ev.Arg); k.OK {
				o.ArgKey = k.Key
			}
			// the value variable of a range over one of the node's lists stands for an element of that list
			if id, isID := ast.Unparen(ev.Arg).(*ast.Ident); isID {
				if vo := objOf(e.Info, id); vo != nil {
					for a := e.P.Parent(ev.Call); a != nil; a = e.P.Parent(a) {
						if rs, isRange := a.(*ast.RangeStmt); isRange && rs.Value != nil && objOf(e.Info, rs.Value) == vo {
							if k := e.CanonSt(st, rs.X); k.OK {
								o.ArgKey = k.Key + "[*]"
							}
							break
						}
						if _, isFn := a.(*ast.FuncDecl); isFn {
							break
						}
					}
				}
			}
			if c.xParam != nil {
				o.XKey = e.objKey(c.xParam)
			}
			if k := e.CanonSt(st, ev.Arg); c.xParam != nil && (objOf(e.Info, ev.Arg) == c.xParam || k.OK && k.Key == e.objKey(c.xParam)) {
				o.ArgKinds = o.Kinds // pass-through of the function's own node: keep the sub-kind precision
			} else {
				o.ArgKinds = c.argKinds(e, st, ev.Arg)
			}
		}
		c.g.occs = append(c.g.occs, o)
	}
	nd := d
	if ev.Kind == "T" {
		nd, _ = applyDepth(d, sqlTokenize(ev.Text))
	}
	return st.WithExt("last:"+bk, strconv.Itoa(ev.ID)).WithExt("depth:"+bk, fmtDepth(nd))
}

func (c *grammarClient) PreCall(e *Engine, st *State, call *ast.CallExpr, callee *types.Func) *State {
	info := e.Info
	if e.Lit != nil && c.g.p.callOnlyClosure(e.Lit) != nil {
		return nil // the body of a local closure is seen at each of its calls, with the arguments bound
	}
	// hand-off: b.String()
	if sel, ok := ast.Unparen(call.Fun).(*ast.SelectorExpr); ok && sel.Sel.Name == "String" && isBuilder(info, sel.X) {
		bk := e.CanonSt(st, sel.X)
		if bk.OK && e.Reporting() {
			ev := c.event(call, 0, func() *emitEvent { return &emitEvent{Kind: "EXIT", Builder: bk.Key, Text: "String()"} })
			prev, _ := strconv.Atoi(st.Ext("last:" + bk.Key))
			c.g.exits = append(c.g.exits, &eventOcc{Ev: ev, Prev: prev, Depth: parseDepth(st.Ext("depth:" + bk.Key)), Kinds: c.kindsOf(e, st), St: st})
		}
		return nil
	}
	// b.Reset(): the buffer is empty again - what is written next is the start of a new text
	if sel, ok := ast.Unparen(call.Fun).(*ast.SelectorExpr); ok && sel.Sel.Name == "Reset" && len(call.Args) == 0 && isBuilder(info, sel.X) {
		if bk := e.CanonSt(st, sel.X); bk.OK {
			return st.WithExt("last:"+bk.Key, "-1").WithExt("depth:"+bk.Key, "0,0,0")
		}
		return nil
	}
	b := emissionBuilder(info, call)
	if b == nil {
		return nil
	}
	// a builder held by value is passed on as &b
	if u, ok := ast.Unparen(b).(*ast.UnaryExpr); ok && u.Op == token.AND {
		b = u.X
	}
	bkI := e.CanonSt(st, b)
	if !bkI.OK {
		return nil
	}
	bk := bkI.Key
	if sel, ok := ast.Unparen(call.Fun).(*ast.SelectorExpr); ok {
		if _, isSel := info.Selections[sel]; isSel && isBuilder(info, sel.X) {
			switch sel.Sel.Name {
			case "WriteString", "WriteByte", "WriteRune":
				// the written value, with names looked through and concatenations split into their operands
				pieces := e.flattenConcat(call.Args[0], nil, 0)
				for i, arg := range pieces {
					text, isConst := "", false
					if v := constOf(info, arg); v != nil {
						isConst = true
						if v.Kind() == constant.String {
							text = constant.StringVal(v)
						} else if n, ok := constant.Int64Val(constant.ToInt(v)); ok {
							text = string(rune(n))
						}
					} else if f := e.FactOf(st, arg); f != nil && f.HasEq && len(f.Eq) >= 2 && f.Eq[0] == '"' {
						// a variable that holds one known constant on this path
						if s, err := strconv.Unquote(f.Eq); err == nil {
							text, isConst = s, true
						}
					} else if f != nil && f.HasEq && sel.Sel.Name != "WriteString" && c.quoteParam(e, arg) {
						// a delimiter byte handed to a shared quoting helper as a constant argument
						if n, ok := parseInt(f.Eq); ok && n > 0 && n < 128 {
							text, isConst = string(rune(n)), true
						}
					}
					if isConst {
						t := text
						variant := ""
						if constOf(info, arg) == nil {
							variant = "=" + t
						}
						ev := c.eventV(call, i, variant, func() *emitEvent { return &emitEvent{Kind: "T", Text: t, Builder: bk} })
						st = c.occ(e, st, ev, bk)
						continue
					}
					a := arg
					ev := c.event(call, i, func() *emitEvent { return &emitEvent{Kind: "RAW", Arg: a, Builder: bk} })
					st = c.occ(e, st, ev, bk)
				}
				return st
			case "Grow":
				return nil
			default:
				ev := c.event(call, 0, func() *emitEvent {
					return &emitEvent{Kind: "RAW", Arg: call.Fun, Builder: bk, Verb: "method " + sel.Sel.Name}
				})
				return c.occ(e, st, ev, bk)
			}
		}
	}
	if callee != nil && callee.FullName() == "fmt.Fprintf" {
		format, ok := constString(info, call.Args[1])
		if !ok {
			ev := c.event(call, 0, func() *emitEvent { return &emitEvent{Kind: "RAW", Arg: call.Args[1], Builder: bk, Verb: "format"} })
			return c.occ(e, st, ev, bk)
		}
		// split the format into constant segments and verbs
		argi := 2
		idx := 0
		seg := ""
		for i := 0; i < len(format); i++ {
			if format[i] != '%' || i+1 >= len(format) {
				seg += string(format[i])
				continue
			}
			if format[i+1] == '%' {
				seg += "%"
				i++
				continue
			}
			if seg != "" {
				s := seg
				ev := c.event(call, idx, func() *emitEvent { return &emitEvent{Kind: "T", Text: s, Builder: bk} })
				st = c.occ(e, st, ev, bk)
				idx++
				seg = ""
			}
			verb := "%" + string(format[i+1])
			var arg ast.Expr
			if argi < len(call.Args) {
				arg = call.Args[argi]
			}
			argi++
			i++
			a, v := arg, verb
			ev := c.event(call, idx, func() *emitEvent { return &emitEvent{Kind: "RAW", Arg: a, Builder: bk, Verb: v} })
			st = c.occ(e, st, ev, bk)
			idx++
		}
		if seg != "" {
			s := seg
			ev := c.event(call, idx, func() *emitEvent { return &emitEvent{Kind: "T", Text: s, Builder: bk} })
			st = c.occ(e, st, ev, bk)
		}
		return st
	}
	if callee != nil {
		switch fnName(callee) {
		case "quoteIdentifier":
			ev := c.event(call, 0, func() *emitEvent { return &emitEvent{Kind: "Q", Arg: call.Args[1], Builder: bk, Callee: callee} })
			return c.occ(e, st, ev, bk)
		case "quoteSQLString":
			ev := c.event(call, 0, func() *emitEvent { return &emitEvent{Kind: "S", Arg: call.Args[1], Builder: bk, Callee: callee} })
			return c.occ(e, st, ev, bk)
		}
		if c.g.absorbed[callee] && e.inlineTarget(call, callee) != nil {
			return nil // interpreted in place: its own writes are the events
		}
		if c.g.emitFns[callee] {
			var arg ast.Expr
			for _, a := range call.Args {
				t := info.TypeOf(a)
				if t != nil && (TypeStr(t) == "parser.Expr" || types.Implements(t, c.g.p.Iface(c.g.p.Parser, "Expr"))) {
					arg = a
				}
			}
			ev := c.event(call, 0, func() *emitEvent { return &emitEvent{Kind: "HOLE", Arg: arg, Builder: bk, Callee: callee} })
			return c.occ(e, st, ev, bk)
		}
		ev := c.event(call, 0, func() *emitEvent {
			return &emitEvent{Kind: "RAW", Arg: call.Fun, Builder: bk, Verb: "call of " + callee.FullName()}
		})
		return c.occ(e, st, ev, bk)
	}
	// dynamic: f.write(ctx, sb, x)
	if fld := selField(info, call.Fun); fld != nil && len(e.P.Summaries().CalleesOfField(fld)) > 0 {
		var arg ast.Expr
		for _, a := range call.Args {
			if TypeStr(info.TypeOf(a)) == "*parser.CallExpr" {
				arg = a
			}
		}
		ev := c.event(call, 0, func() *emitEvent { return &emitEvent{Kind: "DISPATCH", Arg: arg, Builder: bk} })
		return c.occ(e, st, ev, bk)
	}
	ev := c.event(call, 0, func() *emitEvent {
		return &emitEvent{Kind: "RAW", Arg: call.Fun, Builder: bk, Verb: "unknown call"}
	})
	return c.occ(e, st, ev, bk)
}

// Return: a success return is an EXIT of the parameter builder.
func (c *grammarClient) Return(e *Engine, st *State, ret *ast.ReturnStmt) {
	if !e.Reporting() || e.Lit != nil || c.sbParam == nil {
		return
	}
	// error returns discard the text
	if ret != nil && len(ret.Results) > 0 {
		last := ret.Results[len(ret.Results)-1]
		if TypeStr(e.Info.TypeOf(last)) == "error" && !isNilIdent(e.Info, last) {
			// `return writeExpression(...)`: the callee's success/failure decides; treat as a success exit too -
			// unless the callee was interpreted in place and this path is known to carry its error
			call, isCall := ast.Unparen(last).(*ast.CallExpr)
			if !isCall {
				return
			}
			if ids, inPlace := e.inlined[call]; inPlace && len(ids) > 0 {
				if f := st.Get(e.objKey(e.Info.Defs[ids[len(ids)-1]])); f != nil && f.Nil == 2 {
					return
				}
				if e.NonNil(st, ids[len(ids)-1]) {
					return
				}
			}
		}
	}
	bk := e.objKey(c.sbParam)
	var node ast.Node = c.fd
	if ret != nil {
		node = ret
	}
	_ = node
	prev, _ := strconv.Atoi(st.Ext("last:" + bk))
	ev := &emitEvent{ID: -3, Func: c.fd, FnName: c.fn, Kind: "EXIT", Builder: bk, Text: "return"}
	if ret != nil {
		ev.Text = fmt.Sprintf("return #%d", returnOrdinal(c.fd, ret))
	}
	c.g.exits = append(c.g.exits, &eventOcc{Ev: ev, Prev: prev, Depth: parseDepth(st.Ext("depth:" + bk)), Kinds: c.kindsOf(e, st), St: st})
}

// Dump renders the event graph for debugging.
func (g *grammar) Dump() string {
	var sb strings.Builder
	for _, ev := range g.events {
		fmt.Fprintf(&sb, "#%d %s %s %s", ev.ID, ev.FnName, g.p.Pos(ev.Call.Pos()), ev.Kind)
		switch ev.Kind {
		case "T":
			fmt.Fprintf(&sb, " %q", ev.Text)
		default:
			if ev.Arg != nil {
				fmt.Fprintf(&sb, " %s", exprStr(ev.Arg))
			}
			if ev.Callee != nil {
				fmt.Fprintf(&sb, " -> %s", ev.Callee.Name())
			}
			if ev.Verb != "" {
				fmt.Fprintf(&sb, " [%s]", ev.Verb)
			}
		}
		prevs := map[int]bool{}
		kinds := map[string]bool{}
		depths := map[string]bool{}
		for _, o := range g.occs {
			if o.Ev == ev {
				prevs[o.Prev] = true
				depths[fmtDepth(o.Depth)] = true
				for _, k := range o.Kinds {
					kinds[strings.TrimPrefix(k, "*parser.")] = true
				}
			}
		}
		var ps []string
		for p := range prevs {
			ps = append(ps, strconv.Itoa(p))
		}
		sort.Strings(ps)
		var ks []string
		for k := range kinds {
			ks = append(ks, k)
		}
		sort.Strings(ks)
		var ds []string
		for d := range depths {
			ds = append(ds, d)
		}
		fmt.Fprintf(&sb, "  prev=%v depth=%v", ps, ds)
		if len(ks) > 0 && len(ks) < 12 {
			fmt.Fprintf(&sb, " kinds=%v", ks)
		}
		sb.WriteString("\n")
	}
	return sb.String()
}

var _ = token.NoPos

// argKinds: the node kinds a hole's argument can have (static type, narrowed by path facts).
func (c *grammarClient) argKinds(e *Engine, st *State, arg ast.Expr) []string {
	t := e.Info.TypeOf(arg)
	if t == nil {
		return nil
	}
	if _, isIface := t.Underlying().(*types.Interface); !isIface {
		k := TypeStr(t)
		if k == "*parser.CallExpr" {
			return c.expandCall()
		}
		return []string{k}
	}
	var base []string
	if f := e.FactOf(st, arg); f != nil && f.TyIn != nil {
		base = f.TyIn
	} else if f != nil && len(f.TyOut) > 0 {
		for _, k := range c.g.exprAll {
			if !hasStr(f.TyOut, k) {
				base = append(base, k)
			}
		}
	} else {
		base = c.g.exprAll
	}
	var out []string
	for _, k := range base {
		if k == "*parser.CallExpr" {
			out = append(out, c.expandCall()...)
		} else {
			out = append(out, k)
		}
	}
	sort.Strings(out)
	return out
}

func (c *grammarClient) expandCall() []string {
	out := []string{"*parser.CallExpr:generic"}
	for _, row := range c.g.kf {
		out = append(out, "*parser.CallExpr:"+row.Name)
	}
	return out
}

// rawOrigin classifies a non-constant value written into the SQL text.
func (c *grammarClient) rawOrigin(e *Engine, st *State, ev *emitEvent) string {
	info := e.Info
	// the value being quoted, written through a strings.Replacer whose table is a constant (inside a sanitizer only)
	if strings.HasPrefix(ev.Verb, "call of (*strings.Replacer).WriteString") {
		if pairs, ok := c.replacerPairs(e, ev.Call); ok && (declName(c.fd) == "quoteIdentifier" || declName(c.fd) == "quoteSQLString") {
			return "replacer:" + pairs
		}
		return "tainted: written through a replacer whose table is not constant (or outside the sanitizers)"
	}
	if ev.Verb != "" {
		switch {
		case ev.Verb == "%T":
			return "verb:%T (a Go type name)"
		case ev.Verb == "%d" && ev.Arg != nil:
			if b, ok := info.TypeOf(ev.Arg).Underlying().(*types.Basic); ok && b.Info()&types.IsInteger != 0 {
				return "verb:%d of an integer"
			}
		case (ev.Verb == "%s" || ev.Verb == "%v") && ev.Arg != nil && TypeStr(info.TypeOf(ev.Arg)) == "parser.TokenKind":
			return "verb:%s of a TokenKind (generated constant names)"
		}
		if ev.Arg != nil {
			return "tainted: format verb " + ev.Verb + " of " + exprStr(ev.Arg)
		}
		return "tainted: " + ev.Verb
	}
	// a sanitizer that copies the value in runs between the characters it escapes
	if nm := declName(c.fd); nm == "quoteIdentifier" || nm == "quoteSQLString" {
		if ci := c.g.p.chunkIdiomOf(c.fd); ci != nil && ci.writes[ev.Call] {
			switch ev.Call {
			case ci.chunk:
				return "run of the value being quoted, free of " + strconv.Quote(ci.special)
			case ci.rest:
				return "rest of the value being quoted, free of " + strconv.Quote(ci.special)
			default:
				return "byte of the value being quoted"
			}
		}
	}
	arg := e.ResolveExpr(ev.Arg)
	// the generated name of a token kind: x.Kind.String()
	if call, ok := arg.(*ast.CallExpr); ok && len(call.Args) == 0 {
		if sel, ok := ast.Unparen(call.Fun).(*ast.SelectorExpr); ok && sel.Sel.Name == "String" && TypeStr(info.TypeOf(sel.X)) == "parser.TokenKind" {
			return "verb:%s of a TokenKind (generated constant names)"
		}
	}
	// single byte copied by a sanitizer loop
	if b, ok := info.TypeOf(arg).Underlying().(*types.Basic); ok && b.Kind() == types.Byte || ok && b.Kind() == types.Uint8 {
		return "byte of the value being quoted"
	}
	// an identifier bound by `v, ok := M[k]`
	if id, ok := arg.(*ast.Ident); ok {
		obj := objOf(info, id)
		if f := e.FactOf(st, id); f != nil {
			var orgs []string
			for _, t := range f.Tags {
				if strings.HasPrefix(t, "origin:") {
					orgs = append(orgs, strings.TrimPrefix(t, "origin:"))
				}
			}
			if len(orgs) == 1 {
				return orgs[0]
			}
		}
		var def *ast.IndexExpr
		scope := ast.Node(c.fd.Body)
		if obj != nil {
			if fd := c.g.p.FuncAt(obj.Pos()); fd != nil {
				scope = fd.Body
			}
		}
		ast.Inspect(scope, func(n ast.Node) bool {
			as, ok := n.(*ast.AssignStmt)
			if !ok || len(as.Rhs) != 1 || len(as.Lhs) < 1 || objOf(info, as.Lhs[0]) != obj || obj == nil {
				return true
			}
			if ix, ok := ast.Unparen(as.Rhs[0]).(*ast.IndexExpr); ok {
				def = ix
			}
			return true
		})
		if def != nil {
			if _, isMap := info.TypeOf(def.X).Underlying().(*types.Map); isMap {
				if v, ok := objOf(info, def.X).(*types.Var); ok && v.Pkg() != nil && v.Parent() == v.Pkg().Scope() {
					return "constmap:" + objName(v)
				}
				if f := selField(info, def.X); f != nil && fldName(f) == "scope" {
					return "scope"
				}
			}
		}
		if words := c.g.p.constWordParam(obj); words != "" {
			return "constparam: " + words
		}
		if c.g.p.assembledSQL(id, 0) {
			return "assembled: text of a checked builder (handed in by every caller, or built by a helper)"
		}
		return "tainted: variable " + id.Name
	}
	if sel, ok := arg.(*ast.SelectorExpr); ok {
		f := selField(info, sel)
		if f == nil {
			return "tainted: " + exprStr(arg)
		}
		owner := TypeStr(info.TypeOf(sel.X))
		switch {
		case fldName(f) == "sourceSQL":
			return "sourceSQL"
		case f.Name() == "Value" && owner == "*parser.BasicLit":
			k := e.CanonSt(st, sel.X)
			if k.OK {
				if kf := st.Get(k.Key + ".Kind"); kf != nil && kf.HasEq {
					if tn, ok := c.g.p.Parser.Types.Scope().Lookup("TokenNumber").(*types.Const); ok && kf.Eq == constKey(tn.Val()) {
						return "number"
					}
				}
			}
			return "tainted: literal value without a `Kind == TokenNumber` fact"
		case f.Name() == "Name" && owner == "*parser.Ident":
			// x.Func.Name of a call expression
			if inner, ok := ast.Unparen(sel.X).(*ast.SelectorExpr); ok {
				if ff := selField(info, inner); ff != nil && ff.Name() == "Func" && TypeStr(info.TypeOf(inner.X)) == "*parser.CallExpr" {
					return "funcname"
				}
			}
			return "tainted: identifier name " + exprStr(arg)
		}
	}
	return "tainted: " + exprStr(arg)
}

// mapOrigin names the map a lookup reads: the scope of an expression context or a package-level table.
func mapOrigin(info *types.Info, ix *ast.IndexExpr) string {
	if _, isMap := info.TypeOf(ix.X).Underlying().(*types.Map); !isMap {
		return ""
	}
	if v, ok := objOf(info, ix.X).(*types.Var); ok && v.Pkg() != nil && v.Parent() == v.Pkg().Scope() {
		return "constmap:" + objName(v)
	}
	if f := selField(info, ix.X); f != nil && fldName(f) == "scope" {
		return "scope"
	}
	return ""
}

// replacerPairs: the constant old/new table of the strings.Replacer a WriteString call goes through
// (a package-level variable initialised with strings.NewReplacer(...constants...)), as "old\x00new\x00...".
func (c *grammarClient) replacerPairs(e *Engine, call *ast.CallExpr) (string, bool) {
	sel, ok := ast.Unparen(call.Fun).(*ast.SelectorExpr)
	if !ok {
		return "", false
	}
	var init ast.Expr
	recv := e.ResolveExpr(sel.X) // the replacer handed to a shared helper stands for the caller's argument
	if v, ok := objOf(e.Info, recv).(*types.Var); ok && v.Pkg() != nil && v.Parent() == v.Pkg().Scope() && c.g.p.globalNeverWritten(v) {
		for _, pkg := range c.g.p.All {
			if pkg.Types == v.Pkg() {
				init = c.g.p.PkgVarValue(pkg, v.Name())
			}
		}
	} else {
		init = c.g.p.DefOf(recv)
	}
	nc, ok := ast.Unparen(init).(*ast.CallExpr)
	if !ok {
		return "", false
	}
	if f := Callee(e.Info, nc); f == nil || f.FullName() != "strings.NewReplacer" || len(nc.Args)%2 != 0 {
		return "", false
	}
	var parts []string
	for _, a := range nc.Args {
		s, ok := constString(e.Info, a)
		if !ok {
			return "", false
		}
		parts = append(parts, s)
	}
	return strings.Join(parts, "\x00"), true
}

// xParamOf returns, for an emitting function, its Expr-typed parameter (nil if none).
func (g *grammar) xParamOf(fd *ast.FuncDecl) types.Object {
	info := g.p.PQL.TypesInfo
	for _, f := range fd.Type.Params.List {
		if TypeStr(info.TypeOf(f.Type)) == "parser.Expr" && len(f.Names) == 1 {
			return info.Defs[f.Names[0]]
		}
	}
	return nil
}

// stripsParens: fn is a module function (Expr) Expr every return of which is known not to be a *ParenExpr.
type stripClient struct {
	BaseClient
	ok   bool
	seen bool
}

func (c *stripClient) Return(e *Engine, st *State, ret *ast.ReturnStmt) {
	if e.Lit != nil || ret == nil || len(ret.Results) != 1 {
		c.ok = false
		return
	}
	c.seen = true
	f := e.FactOf(st, ret.Results[0])
	if f == nil || !(hasStr(f.TyOut, "*parser.ParenExpr") || (f.TyIn != nil && !hasStr(f.TyIn, "*parser.ParenExpr"))) {
		c.ok = false
	}
}

func (p *Program) stripsParens(fn *types.Func) bool {
	if p.strips == nil {
		p.strips = map[*types.Func]bool{}
	}
	if v, ok := p.strips[fn]; ok {
		return v
	}
	p.strips[fn] = false
	sig := fn.Type().(*types.Signature)
	if fn.Pkg() == nil || fn.Pkg().Path() != PathPQL || sig.Params().Len() != 1 || sig.Results().Len() != 1 ||
		TypeStr(sig.Params().At(0).Type()) != "parser.Expr" || TypeStr(sig.Results().At(0).Type()) != "parser.Expr" {
		return false
	}
	fd := p.FuncDecl(p.PQL, fn.Name())
	if fd == nil {
		return false
	}
	c := &stripClient{ok: true}
	e := NewEngine(p, p.PQL, fd, c)
	e.Run(nil)
	p.strips[fn] = c.ok && c.seen && len(e.Errs) == 0
	if os.Getenv("PQLCHECK_DEBUG") != "" {
		fmt.Fprintf(os.Stderr, "stripsParens(%s) = %v (ok=%v seen=%v errs=%v)\n", fn.Name(), p.strips[fn], c.ok, c.seen, e.Errs)
	}
	return p.strips[fn]
}

// constWordParam: obj is a string parameter of an unexported module function and every call of that function passes a
// constant made of letters, digits and underscores (the SQL name a shared writer is told to use). Returns the
// words, or "".
func (p *Program) constWordParam(obj types.Object) string {
	v, ok := obj.(*types.Var)
	if !ok || v.Pkg() == nil {
		return ""
	}
	fd := p.FuncAt(v.Pos())
	if fd == nil || fd.Body == nil || fd.Name.IsExported() || p.isClosureDecl(fd) {
		return ""
	}
	fn, _ := p.Info.Defs[fd.Name].(*types.Func)
	if fn == nil {
		return ""
	}
	sig := fn.Type().(*types.Signature)
	idx := -1
	for i := 0; i < sig.Params().Len(); i++ {
		if sig.Params().At(i) == v {
			idx = i
		}
	}
	if idx < 0 || sig.Variadic() {
		return ""
	}
	// never assigned inside the function
	written := false
	ast.Inspect(fd.Body, func(n ast.Node) bool {
		switch s := n.(type) {
		case *ast.AssignStmt:
			for _, l := range s.Lhs {
				if objOf(p.Info, l) == obj {
					written = true
				}
			}
		case *ast.UnaryExpr:
			if s.Op == token.AND && objOf(p.Info, s.X) == obj {
				written = true
			}
		}
		return true
	})
	if written {
		return ""
	}
	var words []string
	bad := false
	for _, pkg := range p.All {
		for _, other := range AllFuncs(pkg) {
			ast.Inspect(other.Body, func(n ast.Node) bool {
				switch x := n.(type) {
				case *ast.CallExpr:
					if Callee(pkg.TypesInfo, x) != fn {
						return true
					}
					if idx >= len(x.Args) {
						bad = true
						return true
					}
					s, ok := constString(pkg.TypesInfo, x.Args[idx])
					if !ok || s == "" {
						bad = true
						return true
					}
					for _, r := range s {
						if !(r == '_' || r >= '0' && r <= '9' || r >= 'a' && r <= 'z' || r >= 'A' && r <= 'Z') {
							bad = true
						}
					}
					words = append(words, s)
				case *ast.Ident:
					if pkg.TypesInfo.Uses[x] == fn && !p.isCallFun(pkg, other, x) {
						bad = true // used as a value: its callers are not all known
					}
				}
				return true
			})
		}
	}
	if bad || len(words) == 0 {
		return ""
	}
	sort.Strings(words)
	return strings.Join(words, "|")
}
