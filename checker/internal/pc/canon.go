package pc

import (
	"fmt"
	"go/ast"
	"go/constant"
	"go/token"
	"go/types"
	"sort"
	"strings"
)

// keyInfo is a canonical access path (or boolean atom) with the things it depends on.
type keyInfo struct {
	Key    string
	Objs   []types.Object
	Fields []*types.Var
	Heap   bool
	OK     bool
	Value  bool // the path stays inside a local struct value (no pointer on the way): only stores through that variable change it
}

func (k keyInfo) merge(o keyInfo) keyInfo {
	k.Objs = append(append([]types.Object(nil), k.Objs...), o.Objs...)
	k.Fields = append(append([]*types.Var(nil), k.Fields...), o.Fields...)
	k.Heap = k.Heap || o.Heap
	k.Value = false
	return k
}

// constKey renders a constant for use inside keys and Eq/Ne sets.
func constKey(v constant.Value) string {
	switch v.Kind() {
	case constant.String:
		return fmt.Sprintf("%q", constant.StringVal(v))
	case constant.Bool:
		if constant.BoolVal(v) {
			return "true"
		}
		return "false"
	default:
		return v.ExactString()
	}
}

func (e *Engine) objKey(obj types.Object) string { return e.P.ObjKey(obj) }

// ObjKey is the canonical fact key of a variable.
func (p *Program) ObjKey(obj types.Object) string {
	if v, ok := obj.(*types.Var); ok && v.Pkg() != nil && v.Parent() == v.Pkg().Scope() {
		return "G:" + v.Pkg().Name() + "." + objName(v)
	}
	pos := p.Fset.Position(obj.Pos())
	return fmt.Sprintf("%s#%d", obj.Name(), pos.Offset)
}

// Canon computes the canonical key of an expression, if it is a path or a pure atom (no value aliases).
func (e *Engine) Canon(x ast.Expr) keyInfo { return e.canon(nil, x) }

// CanonSt is Canon under the value aliases recorded in st (`v := path` makes v denote path).
func (e *Engine) CanonSt(st *State, x ast.Expr) keyInfo { return e.canon(st, x) }

func (e *Engine) canon(st *State, x ast.Expr) keyInfo {
	info := e.Info
	x = ast.Unparen(x)
	if tv, ok := info.Types[x]; ok && tv.Value != nil {
		return keyInfo{Key: constKey(tv.Value), OK: true}
	}
	switch x := x.(type) {
	case *ast.Ident:
		obj := objOf(info, x)
		switch o := obj.(type) {
		case *types.Var:
			k := e.objKey(o)
			if st != nil {
				if a := st.facts["val:"+k]; a != nil && a.Alias != nil && !hasStr(a.Tags, "soft") {
					return *a.Alias
				}
			}
			ki := keyInfo{Key: k, Objs: []types.Object{o}, OK: true}
			// a local variable holding a struct by value: its fields change only through stores to this variable
			// (variables whose address is taken carry no facts at all)
			if _, isStruct := o.Type().Underlying().(*types.Struct); isStruct && !o.IsField() && o.Pkg() != nil && o.Parent() != o.Pkg().Scope() {
				ki.Value = true
			}
			return ki
		case *types.Nil:
			return keyInfo{Key: "nil", OK: true}
		}
	case *ast.SelectorExpr:
		if sel, ok := info.Selections[x]; ok {
			if sel.Kind() != types.FieldVal {
				return keyInfo{}
			}
			base := e.canon(st, x.X)
			if !base.OK {
				return keyInfo{}
			}
			fld := sel.Obj().(*types.Var)
			if base.Value && !sel.Indirect() {
				// a field of a struct held by value in a local: nothing but a store through that local changes it
				out := base
				out.Key = base.Key + "." + fldName(fld)
				_, isStruct := fld.Type().Underlying().(*types.Struct)
				out.Value = isStruct
				return out
			}
			out := base.merge(keyInfo{Fields: []*types.Var{fld}})
			out.Key = base.Key + "." + fldName(fld)
			out.OK = true
			out.Value = false
			return out
		}
		// package-qualified identifier
		if v, ok := info.Uses[x.Sel].(*types.Var); ok {
			return keyInfo{Key: e.objKey(v), Objs: []types.Object{v}, OK: true}
		}
	case *ast.StarExpr:
		base := e.canon(st, x.X)
		if !base.OK {
			return keyInfo{}
		}
		base.Key = "*" + base.Key
		base.Heap = true
		return base
	case *ast.IndexExpr:
		base := e.canon(st, x.X)
		idx := e.canon(st, x.Index)
		if !base.OK || !idx.OK {
			return keyInfo{}
		}
		out := base.merge(idx)
		out.Key = base.Key + "[" + idx.Key + "]"
		out.Heap = true
		if e.P.constTable(x.X) != nil {
			out.Heap = idx.Heap // a row of a table nothing writes
		}
		out.OK = true
		return out
	case *ast.CallExpr:
		if id, ok := ast.Unparen(x.Fun).(*ast.Ident); ok {
			if b, ok := info.Uses[id].(*types.Builtin); ok {
				if (b.Name() == "len" || b.Name() == "cap") && len(x.Args) == 1 {
					a := e.canon(st, x.Args[0])
					if !a.OK {
						return keyInfo{}
					}
					a.Key = b.Name() + "(" + a.Key + ")"
					return a
				}
				return keyInfo{}
			}
		}
		if tv, ok := info.Types[x.Fun]; ok && tv.IsType() && len(x.Args) == 1 {
			return e.canon(st, x.Args[0]) // conversion: same value for fact purposes
		}
		if ids := e.inlined[x]; len(ids) == 1 && st != nil {
			// a helper interpreted in place: its value is that of its result variable
			return e.canon(st, ids[0])
		}
		callee := Callee(info, x)
		var out keyInfo
		var parts []string
		name := ""
		if callee == nil {
			if o := objOf(info, e.ResolveExpr(x.Fun)); o == nil || !e.PureDyn[o] {
				return keyInfo{}
			}
		} else if !e.pureCallee(callee) {
			// the result of an impure (or unknown) call is not a stable atom: `for scanner.Scan()` must be re-evaluated
			return keyInfo{}
		}
		if callee != nil {
			name = callee.FullName()
			if sel, ok := ast.Unparen(x.Fun).(*ast.SelectorExpr); ok {
				if _, isSel := info.Selections[sel]; isSel {
					r := e.canon(st, sel.X)
					if !r.OK {
						return keyInfo{}
					}
					out = out.merge(r)
					parts = append(parts, r.Key)
				}
			}
		} else {
			f := e.canon(st, x.Fun)
			if !f.OK {
				return keyInfo{}
			}
			out = out.merge(f)
			name = "dyn:" + f.Key
		}
		for _, a := range x.Args {
			ak := e.canon(st, a)
			if !ak.OK {
				return keyInfo{}
			}
			out = out.merge(ak)
			parts = append(parts, ak.Key)
		}
		out.Key = "call:" + name + "(" + strings.Join(parts, ",") + ")"
		out.OK = true
		if callee != nil {
			for _, f := range e.P.Summaries().ReadsOf(callee) {
				out.Fields = append(out.Fields, f)
			}
			if e.P.Summaries().ReadsHeap(callee) {
				out.Heap = true
			}
		} else {
			out.Heap = true
		}
		return out
	case *ast.TypeAssertExpr:
		if x.Type == nil {
			return keyInfo{}
		}
		base := e.canon(st, x.X)
		if !base.OK {
			return keyInfo{}
		}
		base.Key = "assert(" + base.Key + "," + TypeStr(info.TypeOf(x.Type)) + ")"
		return base
	case *ast.BinaryExpr:
		a, b := e.canon(st, x.X), e.canon(st, x.Y)
		if !a.OK || !b.OK {
			return keyInfo{}
		}
		out := a.merge(b)
		out.OK = true
		switch x.Op {
		case token.EQL, token.NEQ, token.LSS, token.LEQ, token.GTR, token.GEQ:
			k, _ := relKey(a.Key, x.Op, b.Key)
			out.Key = k
		default:
			out.Key = "(" + a.Key + x.Op.String() + b.Key + ")"
		}
		return out
	case *ast.UnaryExpr:
		if x.Op == token.NOT || x.Op == token.SUB {
			a := e.canon(st, x.X)
			if !a.OK {
				return keyInfo{}
			}
			a.Key = "(" + x.Op.String() + a.Key + ")"
			return a
		}
	}
	return keyInfo{}
}

// relKey normalises a comparison between two keys to one of the forms
// "(a == b)", "(a < b)", "(a <= b)" and reports whether the original is the negation of the key.
func relKey(a string, op token.Token, b string) (key string, negated bool) {
	switch op {
	case token.EQL, token.NEQ:
		if b < a {
			a, b = b, a
		}
		return "(" + a + " == " + b + ")", op == token.NEQ
	case token.LSS:
		return "(" + a + " < " + b + ")", false
	case token.LEQ:
		return "(" + a + " <= " + b + ")", false
	case token.GTR:
		return "(" + b + " < " + a + ")", false
	case token.GEQ:
		return "(" + b + " <= " + a + ")", false
	}
	return "", false
}

func dedupeObjs(in []types.Object) []types.Object {
	seen := map[types.Object]bool{}
	var out []types.Object
	for _, o := range in {
		if !seen[o] {
			seen[o] = true
			out = append(out, o)
		}
	}
	return out
}

func dedupeFields(in []*types.Var) []*types.Var {
	seen := map[*types.Var]bool{}
	var out []*types.Var
	for _, o := range in {
		if !seen[o] {
			seen[o] = true
			out = append(out, o)
		}
	}
	sort.Slice(out, func(i, j int) bool { return out[i].Pos() < out[j].Pos() })
	return out
}

// pureCallee reports whether a call result may be remembered as a fact: module functions that write
// nothing (transitively), and package-level functions of a few value-only standard packages.
func (e *Engine) pureCallee(fn *types.Func) bool {
	sums := e.P.Summaries()
	w, ok := sums.Writes[fn]
	if !ok {
		w, ok = sums.Writes[fn.Origin()]
	}
	if ok {
		return !w.All && !w.Index && len(w.Fields) == 0 && len(w.Globals) == 0
	}
	if fn.Pkg() == nil || fn.Type().(*types.Signature).Recv() != nil {
		return false
	}
	switch fn.Pkg().Path() {
	case "strings", "unicode", "unicode/utf8", "strconv", "errors":
		return true
	case "slices":
		switch fn.Name() {
		case "Contains", "Index", "Equal", "BinarySearch":
			return true // read-only searches (no function argument)
		}
	}
	return false
}
