package pc

import (
	"fmt"
	"go/types"
	"sort"
	"strings"
)

// Fact is what is known about one access path (or boolean atom) on a program path.
type Fact struct {
	ObjDeps   []types.Object // local/global variables the key mentions
	FieldDeps []*types.Var   // struct fields the key mentions
	Heap      bool           // key mentions an index or a dereference

	Nil   int8     // 0 unknown, 1 nil, 2 non-nil
	Eq    string   // "" unknown; otherwise exact constant (rendered)
	HasEq bool     //
	Ne    []string // not equal to these constants (sorted)
	Lo    *int64   // integer lower bound (inclusive)
	Hi    *int64   // integer upper bound (inclusive)
	TyIn  []string // dynamic type is one of these (sorted); nil = unknown
	TyOut []string // dynamic type is none of these (sorted)
	Tags  []string // client-defined tags (sorted), e.g. "fresh:chainSubquery"
	Alias *keyInfo // for "val:<var>" entries: the path the variable currently denotes
}

func (f *Fact) clone() *Fact {
	g := *f
	g.Ne = append([]string(nil), f.Ne...)
	g.TyIn = append([]string(nil), f.TyIn...)
	g.TyOut = append([]string(nil), f.TyOut...)
	g.Tags = append([]string(nil), f.Tags...)
	if f.TyIn == nil {
		g.TyIn = nil
	}
	if f.Lo != nil {
		v := *f.Lo
		g.Lo = &v
	}
	if f.Hi != nil {
		v := *f.Hi
		g.Hi = &v
	}
	return &g
}

func (f *Fact) empty() bool {
	return f.Nil == 0 && !f.HasEq && len(f.Ne) == 0 && f.Lo == nil && f.Hi == nil && f.TyIn == nil && len(f.TyOut) == 0 && len(f.Tags) == 0 && f.Alias == nil
}

func (f *Fact) valueString() string {
	var sb strings.Builder
	switch f.Nil {
	case 1:
		sb.WriteString("nil;")
	case 2:
		sb.WriteString("nonnil;")
	}
	if f.HasEq {
		sb.WriteString("=" + f.Eq + ";")
	}
	if len(f.Ne) > 0 {
		sb.WriteString("!=" + strings.Join(f.Ne, ",") + ";")
	}
	if f.Lo != nil {
		fmt.Fprintf(&sb, ">=%d;", *f.Lo)
	}
	if f.Hi != nil {
		fmt.Fprintf(&sb, "<=%d;", *f.Hi)
	}
	if f.TyIn != nil {
		sb.WriteString("ty∈" + strings.Join(f.TyIn, ",") + ";")
	}
	if len(f.TyOut) > 0 {
		sb.WriteString("ty∉" + strings.Join(f.TyOut, ",") + ";")
	}
	if len(f.Tags) > 0 {
		sb.WriteString("#" + strings.Join(f.Tags, ",") + ";")
	}
	if f.Alias != nil {
		sb.WriteString("≡" + f.Alias.Key + ";")
	}
	return sb.String()
}

func addSorted(set []string, v string) []string {
	i := sort.SearchStrings(set, v)
	if i < len(set) && set[i] == v {
		return set
	}
	set = append(set, "")
	copy(set[i+1:], set[i:])
	set[i] = v
	return set
}

func hasStr(set []string, v string) bool {
	i := sort.SearchStrings(set, v)
	return i < len(set) && set[i] == v
}

func intersectStr(a, b []string) []string {
	var out []string
	for _, x := range a {
		if hasStr(b, x) {
			out = append(out, x)
		}
	}
	return out
}

func unionStr(a, b []string) []string {
	out := append([]string(nil), a...)
	for _, x := range b {
		out = addSorted(out, x)
	}
	return out
}

// State is one disjunct: a conjunction of facts plus client extras.
type State struct {
	facts map[string]*Fact
	ext   map[string]string
	str   string
}

func newState() *State { return &State{facts: map[string]*Fact{}, ext: map[string]string{}} }

func (s *State) clone() *State {
	n := &State{facts: make(map[string]*Fact, len(s.facts)+1), ext: make(map[string]string, len(s.ext)+1)}
	for k, v := range s.facts {
		n.facts[k] = v
	}
	for k, v := range s.ext {
		n.ext[k] = v
	}
	return n
}

func (s *State) String() string {
	if s.str != "" {
		return s.str
	}
	keys := make([]string, 0, len(s.facts))
	for k := range s.facts {
		keys = append(keys, k)
	}
	sort.Strings(keys)
	var sb strings.Builder
	for _, k := range keys {
		sb.WriteString(k)
		sb.WriteString(":")
		sb.WriteString(s.facts[k].valueString())
		sb.WriteString(" | ")
	}
	ek := make([]string, 0, len(s.ext))
	for k := range s.ext {
		ek = append(ek, k)
	}
	sort.Strings(ek)
	for _, k := range ek {
		sb.WriteString(k + "=" + s.ext[k] + " | ")
	}
	s.str = sb.String()
	if s.str == "" {
		s.str = "⊤"
	}
	return s.str
}

// Get returns the fact for key, or nil.
func (s *State) Get(key string) *Fact { return s.facts[key] }

// Ext returns a client extra.
func (s *State) Ext(k string) string { return s.ext[k] }

// WithExt returns a copy with the extra set (empty value deletes).
func (s *State) WithExt(k, v string) *State {
	if s.ext[k] == v {
		return s
	}
	n := s.clone()
	if v == "" {
		delete(n.ext, k)
	} else {
		n.ext[k] = v
	}
	return n
}

// with returns a copy in which key maps to f (nil or empty deletes).
func (s *State) with(key string, f *Fact) *State {
	n := s.clone()
	if f == nil || f.empty() {
		delete(n.facts, key)
	} else {
		n.facts[key] = f
	}
	return n
}

// kill removes every fact selected by pred.
func (s *State) kill(pred func(key string, f *Fact) bool) *State {
	var n *State
	for k, f := range s.facts {
		if pred(k, f) {
			if n == nil {
				n = s.clone()
			}
			delete(n.facts, k)
		}
	}
	if n == nil {
		return s
	}
	return n
}

func (s *State) killObj(obj types.Object) *State {
	if obj == nil {
		return s
	}
	return s.kill(func(_ string, f *Fact) bool {
		for _, o := range f.ObjDeps {
			if o == obj {
				return true
			}
		}
		return false
	})
}

func (s *State) killField(fld *types.Var) *State {
	return s.kill(func(_ string, f *Fact) bool {
		for _, o := range f.FieldDeps {
			if o == fld {
				return true
			}
		}
		return false
	})
}

func (s *State) killHeapIndex() *State {
	return s.kill(func(_ string, f *Fact) bool { return f.Heap })
}

// joinFacts weakens two facts about the same key to what both imply.
func joinFacts(a, b *Fact) *Fact {
	if a == nil || b == nil {
		return nil
	}
	out := &Fact{ObjDeps: a.ObjDeps, FieldDeps: a.FieldDeps, Heap: a.Heap}
	if a.Nil == b.Nil {
		out.Nil = a.Nil
	}
	if a.HasEq && b.HasEq && a.Eq == b.Eq {
		out.HasEq, out.Eq = true, a.Eq
	}
	neA, neB := a.Ne, b.Ne
	out.Ne = intersectStr(neA, neB)
	// x == c on one side and x != d on the other with c != d still gives x != d
	if a.HasEq {
		for _, d := range neB {
			if d != a.Eq {
				out.Ne = addSorted(out.Ne, d)
			}
		}
	}
	if b.HasEq {
		for _, d := range neA {
			if d != b.Eq {
				out.Ne = addSorted(out.Ne, d)
			}
		}
	}
	if a.Lo != nil && b.Lo != nil {
		v := min(*a.Lo, *b.Lo)
		out.Lo = &v
	}
	if a.Hi != nil && b.Hi != nil {
		v := max(*a.Hi, *b.Hi)
		out.Hi = &v
	}
	if a.TyIn != nil && b.TyIn != nil {
		out.TyIn = unionStr(a.TyIn, b.TyIn)
	}
	out.TyOut = intersectStr(a.TyOut, b.TyOut)
	out.Tags = intersectStr(a.Tags, b.Tags)
	if a.Alias != nil && b.Alias != nil && a.Alias.Key == b.Alias.Key {
		out.Alias = a.Alias
	}
	return out
}

// joinStates intersects the facts of a group of states (ext must agree; disagreeing extras become "⊤").
func joinStates(group []*State) *State {
	out := group[0].clone()
	for _, s := range group[1:] {
		for k, f := range out.facts {
			j := joinFacts(f, s.facts[k])
			if j == nil || j.empty() {
				delete(out.facts, k)
			} else {
				out.facts[k] = j
			}
		}
		for k, v := range out.ext {
			if s.ext[k] != v {
				out.ext[k] = "⊤"
			}
		}
		for k := range s.ext {
			if _, ok := out.ext[k]; !ok {
				out.ext[k] = "⊤"
			}
		}
	}
	out.str = ""
	return out
}

// StateSet is a disjunction of states, deduplicated.
type StateSet struct {
	list []*State
	seen map[string]bool
}

func (ss *StateSet) add(s *State) bool {
	if s == nil {
		return false
	}
	if ss.seen == nil {
		ss.seen = map[string]bool{}
	}
	k := s.String()
	if ss.seen[k] {
		return false
	}
	ss.seen[k] = true
	ss.list = append(ss.list, s)
	return true
}

func (ss *StateSet) addAll(l []*State) bool {
	ch := false
	for _, s := range l {
		if ss.add(s) {
			ch = true
		}
	}
	return ch
}

const maxDisjuncts = 768

// compact bounds the number of disjuncts: states with identical extras are intersected.
func compact(l []*State) []*State {
	var ss StateSet
	ss.addAll(l)
	if len(ss.list) <= maxDisjuncts {
		return ss.list
	}
	groups := map[string][]*State{}
	var order []string
	for _, s := range ss.list {
		ek := make([]string, 0, len(s.ext))
		for k, v := range s.ext {
			ek = append(ek, k+"="+v)
		}
		sort.Strings(ek)
		g := strings.Join(ek, "|")
		if _, ok := groups[g]; !ok {
			order = append(order, g)
		}
		groups[g] = append(groups[g], s)
	}
	var out []*State
	for _, g := range order {
		out = append(out, joinStates(groups[g]))
	}
	return out
}

// Keys lists the fact keys of the state in sorted order.
func (s *State) Keys() []string { return sortedKeys(s.facts) }

// GetVar returns the fact about a variable, following the path it currently denotes (v := path).
func (s *State) GetVar(key string) *Fact {
	if a := s.facts["val:"+key]; a != nil && a.Alias != nil {
		return s.facts[a.Alias.Key]
	}
	return s.facts[key]
}
