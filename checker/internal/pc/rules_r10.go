package pc

import (
	"fmt"
	"go/ast"
	"go/token"
	"go/types"
	"strings"
)

// ---- C09/letter-case (round 10): the letters of a number are read in either case everywhere.
//
// The documented number grammar spells the exponent marker `e` or `E` and the hexadecimal prefix `0x` or `0X`.
// Every place of the parser package that decides something by comparing a character with one of those letters -
// the scanner's dispatch, the exponent look-ahead, the normalisation of the value, the float test of a literal -
// has to accept the other case in the same decision: in the same `||` chain of equalities (or `&&` chain of
// inequalities) on the same operand, in the same case list of a value switch, or in the same character set given
// to strings.ContainsAny/IndexAny/Trim*. A site that knows one case only makes the scanner and its sibling
// disagree about what was written (`0E5` scanned as a number whose value is then `E5`).
// A comparison of something other than a plain operand (a call that folds the case first) is C09/folding's subject
// and is left alone here.
func ruleC09LetterCase(p *Program, r *Run) {
	pkg := p.Parser
	info := pkg.TypesInfo
	other := map[int64]int64{'e': 'E', 'E': 'e', 'x': 'X', 'X': 'x'}
	isCharType := func(e ast.Expr) bool {
		tv, ok := info.Types[e]
		if !ok || tv.Type == nil {
			return false
		}
		b, ok := tv.Type.Underlying().(*types.Basic)
		return ok && (b.Kind() == types.Int32 || b.Kind() == types.Uint8 || b.Kind() == types.UntypedRune)
	}
	plain := func(e ast.Expr) bool {
		ok := true
		ast.Inspect(e, func(n ast.Node) bool {
			if _, c := n.(*ast.CallExpr); c {
				ok = false
			}
			return ok
		})
		return ok
	}
	folded := map[*ast.BinaryExpr]bool{} // comparisons of a folded character with one of the letters: C09/folding's subject
	// leaf: operand text, constant, operator
	type leaf struct {
		x  string
		k  int64
		op token.Token
	}
	leafOf := func(e ast.Expr) (leaf, bool) {
		b, ok := ast.Unparen(e).(*ast.BinaryExpr)
		if !ok || (b.Op != token.EQL && b.Op != token.NEQ) {
			return leaf{}, false
		}
		x, k := b.X, b.Y
		kv, isK := constInt(info, k)
		if !isK {
			x, k = b.Y, b.X
			kv, isK = constInt(info, k)
		}
		if !isK || !isCharType(k) || !isCharType(x) {
			return leaf{}, false
		}
		if _, xc := constInt(info, x); xc {
			return leaf{}, false
		}
		if !plain(x) {
			if _, isLetter := other[kv]; isLetter {
				folded[b] = true
			}
			return leaf{}, false
		}
		return leaf{exprStr(ast.Unparen(x)), kv, b.Op}, true
	}
	var leaves func(e ast.Expr, chain token.Token, out *[]leaf)
	leaves = func(e ast.Expr, chain token.Token, out *[]leaf) {
		e = ast.Unparen(e)
		if b, ok := e.(*ast.BinaryExpr); ok && b.Op == chain {
			leaves(b.X, chain, out)
			leaves(b.Y, chain, out)
			return
		}
		if l, ok := leafOf(e); ok {
			*out = append(*out, l)
		}
	}
	n := 0
	for _, fd := range AllFuncs(pkg) {
		if fd.Body == nil {
			continue
		}
		fn := FuncName(pkg, fd)
		// maximal chains: visit top-down, do not descend into a chain already handled
		inFunc := map[leaf]bool{}
		ast.Inspect(fd.Body, func(nd ast.Node) bool {
			if e, ok := nd.(ast.Expr); ok {
				if l, ok := leafOf(e); ok {
					inFunc[l] = true
				}
			}
			return true
		})
		var visit func(nd ast.Node) bool
		handleChain := func(e ast.Expr) {
			for _, chain := range []token.Token{token.LOR, token.LAND} {
				want := token.EQL
				if chain == token.LAND {
					want = token.NEQ
				}
				var ls []leaf
				leaves(e, chain, &ls)
				for _, l := range ls {
					o, isLetter := other[l.k]
					if !isLetter || l.op != want {
						continue
					}
					found := false
					for _, m := range ls {
						if m.op == want && m.x == l.x && m.k == o {
							found = true
						}
					}
					if !found && len(ls) == 1 && inFunc[leaf{l.x, o, l.op}] {
						found = true // a decision of its own (an if/else-if ladder): the other case has its own decision in the function
					}
					n++
					r.Saw(fn)
					key := fmt.Sprintf("%s compares %s with %q", fn, l.x, rune(l.k))
					r.Check(found, "C09/letter-case", key, p.Pos(e.Pos()), fmt.Sprintf("the same decision also compares %s with %q", l.x, rune(o)),
						fmt.Sprintf("%s is compared with %q but not with %q in the same decision: the exponent marker and the hexadecimal prefix are written in either case, so this site and the scanner disagree about a number spelled with the other case", l.x, rune(l.k), rune(o)))
				}
			}
		}
		visit = func(nd ast.Node) bool {
			switch v := nd.(type) {
			case *ast.FuncLit:
				return true
			case *ast.BinaryExpr:
				if v.Op == token.LOR || v.Op == token.LAND || v.Op == token.EQL || v.Op == token.NEQ {
					handleChain(v)
					// nested chains of the other kind inside are handled by descending into the leaves that are not comparisons
					if v.Op == token.EQL || v.Op == token.NEQ {
						return false
					}
					var walk func(e ast.Expr, chain token.Token)
					walk = func(e ast.Expr, chain token.Token) {
						e = ast.Unparen(e)
						if b, ok := e.(*ast.BinaryExpr); ok && b.Op == chain {
							walk(b.X, chain)
							walk(b.Y, chain)
							return
						}
						if b, ok := e.(*ast.BinaryExpr); ok && (b.Op == token.EQL || b.Op == token.NEQ) {
							return
						}
						ast.Inspect(e, visit)
					}
					walk(v, v.Op)
					return false
				}
			case *ast.SwitchStmt:
				if v.Tag == nil || !isCharType(v.Tag) || !plain(v.Tag) {
					return true
				}
				for _, st := range v.Body.List {
					cc, ok := st.(*ast.CaseClause)
					if !ok {
						continue
					}
					for _, e := range cc.List {
						kv, isK := constInt(info, e)
						o, isLetter := other[kv]
						if !isK || !isLetter {
							continue
						}
						found := false
						for _, e2 := range cc.List {
							if k2, ok := constInt(info, e2); ok && k2 == o {
								found = true
							}
						}
						n++
						r.Saw(fn)
						key := fmt.Sprintf("%s case %q of switch %s", fn, rune(kv), exprStr(v.Tag))
						r.Check(found, "C09/letter-case", key, p.Pos(cc.Pos()), fmt.Sprintf("the same case lists %q", rune(o)),
							fmt.Sprintf("the case lists %q but not %q: a number spelled with the other case takes another arm", rune(kv), rune(o)))
					}
				}
			case *ast.CallExpr:
				f := Callee(info, v)
				if f == nil || f.Pkg() == nil || (f.Pkg().Path() != "strings" && f.Pkg().Path() != "bytes") || len(v.Args) != 2 {
					return true
				}
				switch f.Name() {
				case "ContainsAny", "IndexAny", "LastIndexAny", "Trim", "TrimLeft", "TrimRight":
				default:
					return true
				}
				set, ok := constString(info, v.Args[1])
				if !ok {
					return true
				}
				for _, c := range set {
					o, isLetter := other[int64(c)]
					if !isLetter {
						continue
					}
					n++
					r.Saw(fn)
					key := fmt.Sprintf("%s character set of %s has %q", fn, f.Name(), c)
					r.Check(strings.ContainsRune(set, rune(o)), "C09/letter-case", key, p.Pos(v.Pos()), fmt.Sprintf("the set also has %q", rune(o)),
						fmt.Sprintf("the character set %q has %q but not %q: a number spelled with the other case is classified differently", set, c, rune(o)))
				}
			}
			return true
		}
		ast.Inspect(fd.Body, visit)
	}
	if len(folded) > 0 {
		r.PassNT("C09/letter-case", "comparisons of a folded character", "-", fmt.Sprintf("%d comparisons of the result of a call with one of the letters are decided by C09/folding", len(folded)))
	}
	r.Floor("C09/letter-case", 2)
}
