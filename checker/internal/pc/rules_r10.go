package pc

import (
	"fmt"
	"go/ast"
	"go/token"
	"go/types"
	"strings"
)

// ---- C09/letter-case (round 10): the letters of a number are read in either case everywhere.
//
// The documented number grammar spells the exponent marker `e` or `E` and the hexadecimal prefix `0x` or `0X`.
// Every place of the parser package that decides something by comparing a character with one of those letters -
// the scanner's dispatch, the exponent look-ahead, the normalisation of the value, the float test of a literal -
// has to accept the other case in the same decision: in the same `||` chain of equalities (or `&&` chain of
// inequalities) on the same operand, in the same case list of a value switch, or in the same character set given
// to strings.ContainsAny/IndexAny/Trim*. A site that knows one case only makes the scanner and its sibling
// disagree about what was written (`0E5` scanned as a number whose value is then `E5`).
// A comparison of something other than a plain operand (a call that folds the case first) is C09/folding's subject
// and is left alone here.
func ruleC09LetterCase(p *Program, r *Run) {
	pkg := p.Parser
	info := pkg.TypesInfo
	other := map[int64]int64{'e': 'E', 'E': 'e', 'x': 'X', 'X': 'x'}
	isCharType := func(e ast.Expr) bool {
		tv, ok := info.Types[e]
		if !ok || tv.Type == nil {
			return false
		}
		b, ok := tv.Type.Underlying().(*types.Basic)
		return ok && (b.Kind() == types.Int32 || b.Kind() == types.Uint8 || b.Kind() == types.UntypedRune)
	}
	plain := func(e ast.Expr) bool {
		ok := true
		ast.Inspect(e, func(n ast.Node) bool {
			if _, c := n.(*ast.CallExpr); c {
				ok = false
			}
			return ok
		})
		return ok
	}
	folded := map[*ast.BinaryExpr]bool{} // comparisons of a folded character with one of the letters: C09/folding's subject
	// leaf: operand text, constant, operator
	type leaf struct {
		x  string
		k  int64
		op token.Token
	}
	leafOf := func(e ast.Expr) (leaf, bool) {
		b, ok := ast.Unparen(e).(*ast.BinaryExpr)
		if !ok || (b.Op != token.EQL && b.Op != token.NEQ) {
			return leaf{}, false
		}
		x, k := b.X, b.Y
		kv, isK := constInt(info, k)
		if !isK {
			x, k = b.Y, b.X
			kv, isK = constInt(info, k)
		}
		if !isK || !isCharType(k) || !isCharType(x) {
			return leaf{}, false
		}
		if _, xc := constInt(info, x); xc {
			return leaf{}, false
		}
		if !plain(x) {
			if _, isLetter := other[kv]; isLetter {
				folded[b] = true
			}
			return leaf{}, false
		}
		return leaf{exprStr(ast.Unparen(x)), kv, b.Op}, true
	}
	var leaves func(e ast.Expr, chain token.Token, out *[]leaf)
	leaves = func(e ast.Expr, chain token.Token, out *[]leaf) {
		e = ast.Unparen(e)
		if b, ok := e.(*ast.BinaryExpr); ok && b.Op == chain {
			leaves(b.X, chain, out)
			leaves(b.Y, chain, out)
			return
		}
		if l, ok := leafOf(e); ok {
			*out = append(*out, l)
		}
	}
	n := 0
	for _, fd := range AllFuncs(pkg) {
		if fd.Body == nil {
			continue
		}
		fn := FuncName(pkg, fd)
		// maximal chains: visit top-down, do not descend into a chain already handled
		inFunc := map[leaf]bool{}
		ast.Inspect(fd.Body, func(nd ast.Node) bool {
			if e, ok := nd.(ast.Expr); ok {
				if l, ok := leafOf(e); ok {
					inFunc[l] = true
				}
			}
			return true
		})
		var visit func(nd ast.Node) bool
		handleChain := func(e ast.Expr) {
			for _, chain := range []token.Token{token.LOR, token.LAND} {
				want := token.EQL
				if chain == token.LAND {
					want = token.NEQ
				}
				var ls []leaf
				leaves(e, chain, &ls)
				for _, l := range ls {
					o, isLetter := other[l.k]
					if !isLetter || l.op != want {
						continue
					}
					found := false
					for _, m := range ls {
						if m.op == want && m.x == l.x && m.k == o {
							found = true
						}
					}
					if !found && len(ls) == 1 && inFunc[leaf{l.x, o, l.op}] {
						found = true // a decision of its own (an if/else-if ladder): the other case has its own decision in the function
					}
					n++
					r.Saw(fn)
					key := fmt.Sprintf("%s compares %s with %q", fn, l.x, rune(l.k))
					r.Check(found, "C09/letter-case", key, p.Pos(e.Pos()), fmt.Sprintf("the same decision also compares %s with %q", l.x, rune(o)),
						fmt.Sprintf("%s is compared with %q but not with %q in the same decision: the exponent marker and the hexadecimal prefix are written in either case, so this site and the scanner disagree about a number spelled with the other case", l.x, rune(l.k), rune(o)))
				}
			}
		}
		visit = func(nd ast.Node) bool {
			switch v := nd.(type) {
			case *ast.FuncLit:
				return true
			case *ast.BinaryExpr:
				if v.Op == token.LOR || v.Op == token.LAND || v.Op == token.EQL || v.Op == token.NEQ {
					handleChain(v)
					// nested chains of the other kind inside are handled by descending into the leaves that are not comparisons
					if v.Op == token.EQL || v.Op == token.NEQ {
						return false
					}
					var walk func(e ast.Expr, chain token.Token)
					walk = func(e ast.Expr, chain token.Token) {
						e = ast.Unparen(e)
						if b, ok := e.(*ast.BinaryExpr); ok && b.Op == chain {
							walk(b.X, chain)
							walk(b.Y, chain)
							return
						}
						if b, ok := e.(*ast.BinaryExpr); ok && (b.Op == token.EQL || b.Op == token.NEQ) {
							return
						}
						ast.Inspect(e, visit)
					}
					walk(v, v.Op)
					return false
				}
			case *ast.SwitchStmt:
				if v.Tag == nil || !isCharType(v.Tag) || !plain(v.Tag) {
					return true
				}
				for _, st := range v.Body.List {
					cc, ok := st.(*ast.CaseClause)
					if !ok {
						continue
					}
					for _, e := range cc.List {
						kv, isK := constInt(info, e)
						o, isLetter := other[kv]
						if !isK || !isLetter {
							continue
						}
						found := false
						for _, e2 := range cc.List {
							if k2, ok := constInt(info, e2); ok && k2 == o {
								found = true
							}
						}
						n++
						r.Saw(fn)
						key := fmt.Sprintf("%s case %q of switch %s", fn, rune(kv), exprStr(v.Tag))
						r.Check(found, "C09/letter-case", key, p.Pos(cc.Pos()), fmt.Sprintf("the same case lists %q", rune(o)),
							fmt.Sprintf("the case lists %q but not %q: a number spelled with the other case takes another arm", rune(kv), rune(o)))
					}
				}
			case *ast.CallExpr:
				f := Callee(info, v)
				if f == nil || f.Pkg() == nil || (f.Pkg().Path() != "strings" && f.Pkg().Path() != "bytes") || len(v.Args) != 2 {
					return true
				}
				switch f.Name() {
				case "ContainsAny", "IndexAny", "LastIndexAny", "Trim", "TrimLeft", "TrimRight":
				default:
					return true
				}
				set, ok := constString(info, v.Args[1])
				if !ok {
					return true
				}
				for _, c := range set {
					o, isLetter := other[int64(c)]
					if !isLetter {
						continue
					}
					n++
					r.Saw(fn)
					key := fmt.Sprintf("%s character set of %s has %q", fn, f.Name(), c)
					r.Check(strings.ContainsRune(set, rune(o)), "C09/letter-case", key, p.Pos(v.Pos()), fmt.Sprintf("the set also has %q", rune(o)),
						fmt.Sprintf("the character set %q has %q but not %q: a number spelled with the other case is classified differently", set, c, rune(o)))
				}
			}
			return true
		}
		ast.Inspect(fd.Body, visit)
	}
	if len(folded) > 0 {
		r.PassNT("C09/letter-case", "comparisons of a folded character", "-", fmt.Sprintf("%d comparisons of the result of a call with one of the letters are decided by C09/folding", len(folded)))
	}
	r.Floor("C09/letter-case", 2)
}

// ---- C09/classes (continuation of an identifier), round 10.
//
// C09/classes decides with which characters the identifier sub-scanner is entered. The characters it goes on with
// are decided here: in the scanner method that builds the TokenIdentifier token, a loop reads `c, ok := s.next()`
// and either leaves on `if <cond over c> { ...; break }` or goes round on `if <cond over c> { continue }`. With ok
// known true the condition is evaluated for every character U+0000..U+30FF (the same symbolic evaluation as for the
// first-character classes); the characters the loop goes on with must be exactly the documented [A-Za-z0-9_].
// A shape that is not recognised or a condition that cannot be evaluated is not decided (and not reported).
func ruleC09IdentTail(p *Program, r *Run) {
	pkg := p.Parser
	info := pkg.TypesInfo
	identK, ok := pkg.Types.Scope().Lookup("TokenIdentifier").(*types.Const)
	if !ok {
		return
	}
	next := FuncObj(pkg, p.MustFunc(pkg, "scanner.next"))
	documented := func(c rune) bool {
		return c >= 'a' && c <= 'z' || c >= 'A' && c <= 'Z' || c >= '0' && c <= '9' || c == '_'
	}
	for _, fd := range AllFuncs(pkg) {
		if fd.Body == nil || fd.Recv == nil || !p.isLexerFunc(fd) {
			continue
		}
		builds := false
		ast.Inspect(fd.Body, func(n ast.Node) bool {
			if kv, ok := n.(*ast.KeyValueExpr); ok {
				if k, ok := kv.Key.(*ast.Ident); ok && k.Name == "Kind" {
					if id, ok := ast.Unparen(kv.Value).(*ast.Ident); ok && info.Uses[id] == types.Object(identK) {
						builds = true
					}
				}
			}
			return !builds
		})
		if !builds {
			continue
		}
		fn := FuncName(pkg, fd)
		nLoop := 0
		ast.Inspect(fd.Body, func(n ast.Node) bool {
			loop, ok := n.(*ast.ForStmt)
			if !ok {
				return true
			}
			nLoop++
			var cVar, okVar types.Object
			for _, st := range loop.Body.List {
				if as, ok := st.(*ast.AssignStmt); ok && len(as.Lhs) == 2 && len(as.Rhs) == 1 {
					if call, ok := as.Rhs[0].(*ast.CallExpr); ok && Callee(info, call) == next {
						cVar, okVar = objOf(info, as.Lhs[0]), objOf(info, as.Lhs[1])
					}
				}
				ifs, ok := st.(*ast.IfStmt)
				if !ok || cVar == nil || ifs.Init != nil || ifs.Else != nil || len(ifs.Body.List) == 0 {
					continue
				}
				mentions := false
				ast.Inspect(ifs.Cond, func(m ast.Node) bool {
					if id, ok := m.(*ast.Ident); ok && info.Uses[id] == cVar {
						mentions = true
					}
					return true
				})
				if !mentions {
					continue
				}
				last, isBr := ifs.Body.List[len(ifs.Body.List)-1].(*ast.BranchStmt)
				var leaves bool
				switch {
				case isBr && last.Tok == token.BREAK && last.Label == nil:
					leaves = true
				case isBr && last.Tok == token.CONTINUE && last.Label == nil && len(ifs.Body.List) == 1:
					leaves = false
				default:
					continue
				}
				bad, undecided := "", false
				for c := rune(0); c < runeLimit && bad == ""; c++ {
					benv := map[types.Object]bool{}
					if okVar != nil {
						benv[okVar] = true
					}
					v, ok := newPredEval(p, map[types.Object]int64{cVar: int64(c)}, benv, 0).evalB(ifs.Cond)
					if !ok {
						undecided = true
						break
					}
					goesOn := v != leaves
					if goesOn != documented(c) {
						bad = fmt.Sprintf("%q (U+%04X): goes on=%v, documented=%v", c, c, goesOn, documented(c))
					}
				}
				if undecided {
					r.Note("C09/classes: the continuation test of %s loop #%d (%s) cannot be evaluated symbolically; not decided", fn, nLoop, exprStr(ifs.Cond))
					continue
				}
				r.Saw(fn)
				r.Check(bad == "", "C09/classes", fmt.Sprintf("%s loop #%d continuation class", fn, nLoop), p.Pos(ifs.Pos()), "the identifier goes on with exactly the documented characters [A-Za-z0-9_] (U+0000..U+30FF)", "the characters an identifier goes on with differ from the documented [A-Za-z0-9_]: "+bad+" - the first character is dispatched on another class, so the same text is one identifier or an identifier and an error token depending on where it starts")
			}
			return true
		})
	}
}

// ---- C08/notfound (nothing kept), round 10.
//
// A production that answers with the not-found marker has found nothing: whatever node value comes with the marker
// is a by-product (a half-built node, a zero value). Where a parser method tests `isNotFound(err)` directly behind
// `n, err := <production>()`, the branch taken when the test says yes must not put n into the tree - not append it,
// not store it in a field or an element, not place it in a composite literal. A node kept there is in the tree
// although the parse says that nothing was there (and its required fields are empty: the traversal meets nil).
func ruleC08NotFoundKept(p *Program, r *Run) {
	pkg := p.Parser
	info := pkg.TypesInfo
	nfd := p.FuncDecl(pkg, "isNotFound")
	if nfd == nil {
		return
	}
	notFound := FuncObj(pkg, nfd)
	n := 0
	for _, fd := range AllFuncs(pkg) {
		if fd.Body == nil {
			continue
		}
		fn := FuncName(pkg, fd)
		ast.Inspect(fd.Body, func(x ast.Node) bool {
			blk, ok := x.(*ast.BlockStmt)
			if !ok {
				return true
			}
			for i, st := range blk.List {
				as, ok := st.(*ast.AssignStmt)
				if !ok || len(as.Lhs) != 2 || len(as.Rhs) != 1 || i+1 >= len(blk.List) {
					continue
				}
				if _, isCall := as.Rhs[0].(*ast.CallExpr); !isCall {
					continue
				}
				nodeV, errV := objOf(info, as.Lhs[0]), objOf(info, as.Lhs[1])
				if nodeV == nil || errV == nil || TypeStr(errV.Type()) != "error" {
					continue
				}
				ifs, ok := blk.List[i+1].(*ast.IfStmt)
				if !ok || ifs.Init != nil {
					continue
				}
				// the condition is isNotFound(err), possibly one conjunct of a && chain
				yes := false
				var conj func(e ast.Expr)
				conj = func(e ast.Expr) {
					e = ast.Unparen(e)
					if b, ok := e.(*ast.BinaryExpr); ok && b.Op == token.LAND {
						conj(b.X)
						conj(b.Y)
						return
					}
					if call, ok := e.(*ast.CallExpr); ok && Callee(info, call) == notFound && len(call.Args) == 1 && objOf(info, call.Args[0]) == errV {
						yes = true
					}
				}
				conj(ifs.Cond)
				if !yes {
					continue
				}
				n++
				r.Saw(fn)
				var kept []string
				isN := func(e ast.Expr) bool {
					id, ok := ast.Unparen(e).(*ast.Ident)
					return ok && info.Uses[id] == nodeV
				}
				ast.Inspect(ifs.Body, func(m ast.Node) bool {
					switch v := m.(type) {
					case *ast.FuncLit:
						return false
					case *ast.CallExpr:
						if IsBuiltinCall(info, v, "append") {
							for _, a := range v.Args[1:] {
								if isN(a) {
									kept = append(kept, "appended at "+p.Pos(v.Pos()))
								}
							}
						}
					case *ast.AssignStmt:
						for j, l := range v.Lhs {
							if j >= len(v.Rhs) || !isN(v.Rhs[j]) {
								continue
							}
							switch ast.Unparen(l).(type) {
							case *ast.SelectorExpr, *ast.IndexExpr:
								kept = append(kept, "stored at "+p.Pos(v.Pos()))
							}
						}
					case *ast.CompositeLit:
						for _, el := range v.Elts {
							if kv, ok := el.(*ast.KeyValueExpr); ok {
								el = kv.Value
							}
							if isN(el) {
								kept = append(kept, "placed in a literal at "+p.Pos(v.Pos()))
							}
						}
					}
					return true
				})
				key := fmt.Sprintf("%s result %s of %s behind isNotFound", fn, nodeV.Name(), exprStr(as.Rhs[0]))
				r.Check(len(kept) == 0, "C08/notfound", key, p.Pos(ifs.Pos()), "the branch taken when the production found nothing keeps nothing of its result in the tree", "the node that came with the not-found marker is kept in the tree ("+strings.Join(kept, ", ")+"): the parse goes on as if nothing had been there, yet a half-built node (required fields empty) is part of the result - the traversal and the compiler meet nil")
			}
			return true
		})
	}
	if n == 0 {
		r.Note("C08/notfound (nothing kept): no `n, err := production(); if isNotFound(err)` site found; not decided")
	}
}
