package pc

import "sort"

// Property couples an id with its rules and evidence text.
type Property struct {
	Meta  PropertyMeta
	Rules []func(p *Program, r *Run)
}

var registry = map[string]*Property{}

func register(meta PropertyMeta, rules ...func(p *Program, r *Run)) {
	registry[meta.ID] = &Property{Meta: meta, Rules: rules}
}

func Lookup(id string) *Property { return registry[id] }

func PropertyIDs() []string {
	var ids []string
	for id := range registry {
		ids = append(ids, id)
	}
	sort.Strings(ids)
	return ids
}

var commonAssumptions = []string{
	"go/packages, go/types (and go/ssa where used) model the Go source faithfully; no unsafe/reflect/cgo in the module (asserted by C14)",
	"only the structural necessary conditions named in 'explanation' are decided; the behavioural remainder of the property is NOT decided by this check",
}
