package pc

import "sort"

// Property couples an id with its rules and evidence text.
type Property struct {
	Meta  PropertyMeta
	Rules []func(p *Program, r *Run)
}

var registry = map[string]*Property{}

func register(meta PropertyMeta, rules ...func(p *Program, r *Run)) {
	registry[meta.ID] = &Property{Meta: meta, Rules: rules}
}

func Lookup(id string) *Property { return registry[id] }

func PropertyIDs() []string {
	var ids []string
	for id := range registry {
		ids = append(ids, id)
	}
	sort.Strings(ids)
	return ids
}

var commonAssumptions = []string{
	"go/packages, go/types (and go/ssa where used) model the Go source faithfully; no unsafe/reflect/cgo in the module (asserted by C14)",
	"only the structural necessary conditions named in 'explanation' are decided; the behavioural remainder of the property is NOT decided by this check",
}

func init() {
	register(PropertyMeta{
		ID:    "C11",
		Level: "other",
		Explanation: "parser.Walk is read as a table (case type -> visitor call, pushed child fields, guards). Decided: (handled) every dynamic type that can reach the worklist - roots of type Statement/Expr and every pushed field, interface-typed fields expanded to all module implementers - has a case, so the panicking default is dead; (complete) every node-bearing field of every case type is pushed exactly once (slices: in a loop over all indices; element types without a case: their node fields instead), two documented exceptions; (nil) optional fields (derived from explicit nil stores in the parser plus reviewed rows) are pushed only under a nil guard; (once) one visitor call per case with the case's node, all pushes gated on its result, one pop per iteration, root pushed once; (use) the compiler's visitor always returns true. Not decided: acyclicity/finite size of trees (assumed from the parser building fresh nodes), behaviour for trees built by hand.",
		Assumptions: append([]string{"the parser returns finite trees without sharing", "optional-field table = explicit `x.F = nil` stores in parser productions + reviewed rows (ProjectColumn.X, RenderProperty.Value)"}, commonAssumptions...),
		Rules:       []string{"C11/handled", "C11/complete", "C11/nil", "C11/once", "C11/use"},
	}, ruleC11)
}
