package pc

import (
	"fmt"
	"go/ast"
	"go/constant"
	"go/token"
	"go/types"
	"os"
	"sort"
	"strconv"
	"strings"

	"golang.org/x/tools/go/packages"
)

// Client receives the events of the abstract interpretation. Hooks may return a
// replacement state (nil = keep). Obligations must only be recorded when e.Reporting().
type Client interface {
	PreCall(e *Engine, st *State, call *ast.CallExpr, callee *types.Func) *State
	PostCall(e *Engine, st *State, call *ast.CallExpr, callee *types.Func) *State
	PreAssign(e *Engine, st *State, lhs []ast.Expr, rhs []ast.Expr, stmt ast.Stmt) *State
	PostAssign(e *Engine, st *State, lhs []ast.Expr, rhs []ast.Expr, stmt ast.Stmt) *State
	Visit(e *Engine, st *State, n ast.Node) *State
	Return(e *Engine, st *State, ret *ast.ReturnStmt)
	LoopHead(e *Engine, st *State, loop ast.Stmt) *State
	LoopBack(e *Engine, st *State, loop ast.Stmt)
	Stmt(e *Engine, st *State, s ast.Stmt) *State
	// ScopeEnd is called when the scope of n ends, before facts about its variables are forgotten.
	ScopeEnd(e *Engine, st *State, n ast.Node) *State
}

// Splitter is an optional Client extension: after an assignment a state may be replaced by several
// (case split on a callee's post-condition, e.g. "returns (non-nil, nil) or (nil, non-nil)").
type Splitter interface {
	SplitAssign(e *Engine, st *State, lhs []ast.Expr, rhs []ast.Expr, stmt ast.Stmt) []*State
}

// BaseClient is a no-op Client for embedding.
type BaseClient struct{}

func (BaseClient) PreCall(*Engine, *State, *ast.CallExpr, *types.Func) *State  { return nil }
func (BaseClient) PostCall(*Engine, *State, *ast.CallExpr, *types.Func) *State { return nil }
func (BaseClient) PreAssign(*Engine, *State, []ast.Expr, []ast.Expr, ast.Stmt) *State {
	return nil
}
func (BaseClient) PostAssign(*Engine, *State, []ast.Expr, []ast.Expr, ast.Stmt) *State {
	return nil
}
func (BaseClient) Visit(*Engine, *State, ast.Node) *State    { return nil }
func (BaseClient) Return(*Engine, *State, *ast.ReturnStmt)   {}
func (BaseClient) LoopHead(*Engine, *State, ast.Stmt) *State { return nil }
func (BaseClient) LoopBack(*Engine, *State, ast.Stmt)        {}
func (BaseClient) Stmt(*Engine, *State, ast.Stmt) *State     { return nil }
func (BaseClient) ScopeEnd(*Engine, *State, ast.Node) *State { return nil }

// SiteResult aggregates the verdicts of all states reaching one syntactic site.
type SiteResult struct {
	Rule   string
	Key    string
	Node   ast.Node
	Visits int
	Fails  []string
	How    string
}

// Engine is a structured abstract interpreter over one function body.
type Engine struct {
	P      *Program
	Pkg    *packages.Package
	Info   *types.Info
	Client Client
	Func   *ast.FuncDecl
	Lit    *ast.FuncLit // non-nil while a function literal body is analysed

	noFacts        map[types.Object]bool
	noted          map[ast.Node]bool // bodies whose captured/address-taken variables were recorded in noFacts
	frames         []*Frame          // helper calls being interpreted in place (innermost last)
	inlined        map[*ast.CallExpr][]*ast.Ident
	quiet          int
	targets        []target
	brk            map[ast.Stmt][]*State
	cont           map[ast.Stmt][]*State
	labels         map[ast.Stmt]string
	lits           []*ast.FuncLit
	Errs           []string
	sites          map[string]*SiteResult
	order          []string
	debug          bool
	bindingParams  bool
	closureAssigns map[types.Object][]types.Object // call-only closure variable -> captured variables its body assigns
	// PureDyn: function-typed variables whose call results are remembered like those of pure functions (a client
	// that needs to know which way `if visit(n)` went within one iteration)
	PureDyn map[types.Object]bool
}

type target struct {
	stmt   ast.Stmt
	label  string
	isLoop bool
}

// NewEngine prepares the analysis of fd.
func NewEngine(p *Program, pkg *packages.Package, fd *ast.FuncDecl, c Client) *Engine {
	e := &Engine{P: p, Pkg: pkg, Info: pkg.TypesInfo, Client: c, Func: fd,
		noFacts: map[types.Object]bool{}, brk: map[ast.Stmt][]*State{}, cont: map[ast.Stmt][]*State{},
		labels: map[ast.Stmt]string{}, sites: map[string]*SiteResult{}, noted: map[ast.Node]bool{}, inlined: map[*ast.CallExpr][]*ast.Ident{}}
	if d := os.Getenv("PQLCHECK_DEBUG"); d != "" && strings.Contains(FuncName(pkg, fd), d) {
		e.debug = true
	}
	e.noteBody(fd.Body)
	// named results assigned in deferred closures are covered by the rule above.
	return e
}

// noteBody records the variables of body that carry no facts: those assigned inside function literals
// (captured), and those whose address is taken.
func (e *Engine) noteBody(body ast.Node) {
	if body == nil || e.noted[body] {
		return
	}
	e.noted[body] = true
	var litStack []*ast.FuncLit
	captured := func(o types.Object) bool {
		// declared outside the innermost enclosing literal
		if len(litStack) == 0 || o == nil {
			return false
		}
		l := litStack[len(litStack)-1]
		return o.Pos() < l.Pos() || o.Pos() >= l.End()
	}
	var walk func(n ast.Node) bool
	walk = func(n ast.Node) bool {
		switch x := n.(type) {
		case *ast.FuncLit:
			litStack = append(litStack, x)
			ast.Inspect(x.Body, walk)
			litStack = litStack[:len(litStack)-1]
			return false
		case *ast.AssignStmt:
			for _, l := range x.Lhs {
				if o := objOf(e.Info, l); captured(o) && x.Tok != token.DEFINE {
					e.noteCaptured(litStack[len(litStack)-1], o)
				}
			}
		case *ast.IncDecStmt:
			if o := objOf(e.Info, x.X); captured(o) {
				e.noteCaptured(litStack[len(litStack)-1], o)
			}
		case *ast.UnaryExpr:
			if x.Op == token.AND {
				if o := objOf(e.Info, x.X); o != nil {
					e.noFacts[o] = true
				}
			}
		}
		return true
	}
	ast.Inspect(body, walk)
}

// noteCaptured: a variable assigned inside a function literal. Normally it carries no facts (the literal may run at
// any time); if the literal is a local closure that is only ever called directly (f := func(){...}; f()), the
// assignments happen exactly at those calls: the variable keeps its facts and they are dropped at every such call
// that is not interpreted in place.
func (e *Engine) noteCaptured(lit *ast.FuncLit, o types.Object) {
	if v := e.P.callOnlyClosure(lit); v != nil {
		if e.closureAssigns == nil {
			e.closureAssigns = map[types.Object][]types.Object{}
		}
		for _, x := range e.closureAssigns[v] {
			if x == o {
				return
			}
		}
		e.closureAssigns[v] = append(e.closureAssigns[v], o)
		return
	}
	e.noFacts[o] = true
}

// Reporting is true outside loop fixpoint iterations: only then may obligations be recorded.
func (e *Engine) Reporting() bool { return e.quiet == 0 }

// Site records the verdict of one state at one site (aggregated: a site holds iff it holds in every state).
func (e *Engine) Site(rule, key string, n ast.Node, ok bool, how string) {
	if !e.Reporting() {
		return
	}
	id := rule + "\x00" + key
	s := e.sites[id]
	if s == nil {
		s = &SiteResult{Rule: rule, Key: key, Node: n}
		e.sites[id] = s
		e.order = append(e.order, id)
	}
	s.Visits++
	if ok {
		if s.How == "" {
			s.How = how
		}
	} else {
		for _, f := range s.Fails {
			if f == how {
				return
			}
		}
		s.Fails = append(s.Fails, how)
	}
}

// Sites returns the aggregated site verdicts in first-visit order.
func (e *Engine) Sites() []*SiteResult {
	var out []*SiteResult
	for _, id := range e.order {
		out = append(out, e.sites[id])
	}
	return out
}

// FlushSites turns aggregated sites into obligations of r.
func (e *Engine) FlushSites(r *Run) {
	for _, s := range e.Sites() {
		pos := e.P.Pos(s.Node.Pos())
		if len(s.Fails) == 0 {
			r.PassNT(s.Rule, s.Key, pos, fmt.Sprintf("%s (all %d abstract path states)", s.How, s.Visits))
		} else {
			r.Fail(s.Rule, s.Key, pos, strings.Join(s.Fails, "; "))
		}
	}
	e.sites = map[string]*SiteResult{}
	e.order = nil
}

func (e *Engine) unsupported(n ast.Node, what string) {
	msg := fmt.Sprintf("%s: unsupported construct %s", e.P.Pos(n.Pos()), what)
	for _, m := range e.Errs {
		if m == msg {
			return
		}
	}
	e.Errs = append(e.Errs, msg)
}

// Run interprets the function body (and then every function literal in it) from the state init.
func (e *Engine) Run(init *State) {
	if init == nil {
		init = newState()
	}
	out := e.block(e.Func.Body, []*State{init})
	for _, st := range out {
		e.Client.Return(e, st, nil)
	}
	for i := 0; i < len(e.lits); i++ {
		lit := e.lits[i]
		e.Lit = lit
		out := e.block(lit.Body, []*State{newState()})
		for _, st := range out {
			e.Client.Return(e, st, nil)
		}
	}
	e.Lit = nil
}

// ---------- statements

func (e *Engine) block(b *ast.BlockStmt, in []*State) []*State {
	if b == nil {
		return in
	}
	return e.stmts(b.List, in)
}

func (e *Engine) stmts(list []ast.Stmt, in []*State) []*State {
	for _, s := range list {
		if len(in) == 0 {
			return nil
		}
		in = e.stmt(s, in)
	}
	return in
}

func (e *Engine) hookEach(in []*State, f func(st *State) *State) []*State {
	out := make([]*State, 0, len(in))
	for _, st := range in {
		if n := f(st); n != nil {
			st = n
		}
		out = append(out, st)
	}
	return out
}

// stmt executes s and then forgets facts about variables whose scope ended with s.
func (e *Engine) stmt(s ast.Stmt, in []*State) []*State {
	out := e.stmt1(s, in)
	switch s.(type) {
	case *ast.BlockStmt, *ast.IfStmt, *ast.ForStmt, *ast.RangeStmt, *ast.SwitchStmt, *ast.TypeSwitchStmt:
		out = e.pruneScope(out, s)
	}
	if _, isRet := s.(*ast.ReturnStmt); !isRet {
		out = e.pruneInlined(s, out)
	}
	return out
}

// pruneScope drops facts that mention a variable declared inside n (it is out of scope afterwards).
func (e *Engine) pruneScope(in []*State, n ast.Node) []*State {
	lo, hi := n.Pos(), n.End()
	in = e.hookEach(in, func(st *State) *State { return e.Client.ScopeEnd(e, st, n) })
	out := make([]*State, 0, len(in))
	loOff, hiOff := e.P.Fset.Position(lo).Offset, e.P.Fset.Position(hi).Offset
	for _, st := range in {
		st = st.kill(func(_ string, f *Fact) bool {
			for _, o := range f.ObjDeps {
				if p := o.Pos(); p >= lo && p < hi {
					return true
				}
			}
			return false
		})
		// client extras keyed by a variable of the ended scope ("...name#offset...") are forgotten too
		var n *State
		for k := range st.ext {
			if extMentionsScope(k, loOff, hiOff) {
				if n == nil {
					n = st.clone()
				}
				delete(n.ext, k)
			}
		}
		if n != nil {
			st = n
		}
		out = append(out, st)
	}
	return compact(out)
}

func (e *Engine) stmt1(s ast.Stmt, in []*State) []*State {
	in = compact(in)
	if e.debug && e.Reporting() {
		fmt.Fprintf(os.Stderr, "[%s] %T %d states\n", e.P.Pos(s.Pos()), s, len(in))
		for _, st := range in {
			fmt.Fprintf(os.Stderr, "      %s\n", st)
		}
	}
	in = e.hookEach(in, func(st *State) *State { return e.Client.Stmt(e, st, s) })
	switch s := s.(type) {
	case *ast.BlockStmt:
		return e.block(s, in)
	case *ast.ExprStmt:
		return e.expr(s.X, in)
	case *ast.AssignStmt:
		return e.assign(s.Lhs, s.Rhs, s.Tok, s, in)
	case *ast.IncDecStmt:
		in = e.lhsSub(s.X, in)
		in = e.hookEach(in, func(st *State) *State { return e.killTarget(st, s.X) })
		return e.hookEach(in, func(st *State) *State { return e.Client.PostAssign(e, st, []ast.Expr{s.X}, nil, s) })
	case *ast.DeclStmt:
		gd, ok := s.Decl.(*ast.GenDecl)
		if !ok || gd.Tok != token.VAR {
			return in
		}
		for _, spec := range gd.Specs {
			vs := spec.(*ast.ValueSpec)
			lhs := make([]ast.Expr, len(vs.Names))
			for i, n := range vs.Names {
				lhs[i] = n
			}
			if len(vs.Values) > 0 {
				in = e.assign(lhs, vs.Values, token.DEFINE, s, in)
				continue
			}
			// zero values
			in = e.hookEach(in, func(st *State) *State {
				for _, n := range vs.Names {
					st = e.killTarget(st, n)
					st = e.setZero(st, n)
				}
				return st
			})
			in = e.hookEach(in, func(st *State) *State { return e.Client.PostAssign(e, st, lhs, nil, s) })
		}
		return in
	case *ast.IfStmt:
		if s.Init != nil {
			in = e.stmt(s.Init, in)
		}
		t, f := e.cond(s.Cond, in)
		t, f = e.pruneInlined(s.Cond, t), e.pruneInlined(s.Cond, f)
		out := e.block(s.Body, t)
		if s.Else != nil {
			out = append(out, e.stmt(s.Else, f)...)
		} else {
			out = append(out, f...)
		}
		return out
	case *ast.ForStmt:
		return e.forStmt(s, in)
	case *ast.RangeStmt:
		return e.rangeStmt(s, in)
	case *ast.SwitchStmt:
		return e.switchStmt(s, in)
	case *ast.TypeSwitchStmt:
		return e.typeSwitchStmt(s, in)
	case *ast.LabeledStmt:
		e.labels[s.Stmt] = s.Label.Name
		return e.stmt(s.Stmt, in)
	case *ast.ReturnStmt:
		if len(e.frames) > 0 && e.Lit == nil {
			e.inlineReturn(s, in)
			return nil
		}
		for _, r := range s.Results {
			in = e.expr(r, in)
		}
		for _, st := range in {
			e.Client.Return(e, st, s)
		}
		return nil
	case *ast.BranchStmt:
		switch s.Tok {
		case token.BREAK, token.CONTINUE:
			label := ""
			if s.Label != nil {
				label = s.Label.Name
			}
			for i := len(e.targets) - 1; i >= 0; i-- {
				t := e.targets[i]
				if label != "" && t.label != label {
					continue
				}
				if label == "" && s.Tok == token.CONTINUE && !t.isLoop {
					continue
				}
				if s.Tok == token.BREAK {
					e.brk[t.stmt] = append(e.brk[t.stmt], in...)
				} else {
					e.cont[t.stmt] = append(e.cont[t.stmt], in...)
				}
				return nil
			}
			e.unsupported(s, "branch without target")
			return nil
		default:
			e.unsupported(s, s.Tok.String())
			return nil
		}
	case *ast.DeferStmt:
		return e.deferOrGo(s.Call, in)
	case *ast.GoStmt:
		e.unsupported(s, "go statement")
		return e.deferOrGo(s.Call, in)
	case *ast.EmptyStmt:
		return in
	case *ast.SendStmt, *ast.SelectStmt:
		e.unsupported(s, fmt.Sprintf("%T", s))
		return in
	default:
		e.unsupported(s, fmt.Sprintf("%T", s))
		return in
	}
}

func (e *Engine) deferOrGo(call *ast.CallExpr, in []*State) []*State {
	// arguments are evaluated now; a literal body is analysed separately.
	if lit, ok := ast.Unparen(call.Fun).(*ast.FuncLit); ok {
		e.noteLit(lit)
	} else {
		in = e.expr(call.Fun, in)
	}
	for _, a := range call.Args {
		in = e.expr(a, in)
	}
	return in
}

func (e *Engine) noteLit(lit *ast.FuncLit) {
	for _, l := range e.lits {
		if l == lit {
			return
		}
	}
	e.lits = append(e.lits, lit)
}

func (e *Engine) pushTarget(s ast.Stmt, isLoop bool) {
	e.targets = append(e.targets, target{stmt: s, label: e.labels[s], isLoop: isLoop})
}

func (e *Engine) popTarget() { e.targets = e.targets[:len(e.targets)-1] }

func (e *Engine) take(m map[ast.Stmt][]*State, s ast.Stmt) []*State {
	out := m[s]
	delete(m, s)
	return out
}

func (e *Engine) condOrAll(c ast.Expr, in []*State) (t, f []*State) {
	if c == nil {
		return in, nil
	}
	return e.cond(c, in)
}

const maxLoopIters = 40

// widen keeps integer bounds from growing forever around a loop: a bound of a state that is about to be
// added to the loop head is relaxed to the weakest bound the head already has for that key
// (dropped if some head state has no bound for it).
func widen(head []*State, out []*State) []*State {
	res := make([]*State, 0, len(out))
	for _, st := range out {
		var n *State
		for k, f := range st.facts {
			if f.Lo == nil && f.Hi == nil {
				continue
			}
			lo, hi := f.Lo, f.Hi
			for _, h := range head {
				hf := h.facts[k]
				if hf == nil || hf.Lo == nil {
					lo = nil
				} else if lo != nil && *hf.Lo < *lo {
					lo = hf.Lo
				}
				if hf == nil || hf.Hi == nil {
					hi = nil
				} else if hi != nil && *hf.Hi > *hi {
					hi = hf.Hi
				}
			}
			same := func(a, b *int64) bool { return a == b || (a != nil && b != nil && *a == *b) }
			if same(lo, f.Lo) && same(hi, f.Hi) {
				continue
			}
			g := f.clone()
			g.Lo, g.Hi = nil, nil
			if lo != nil {
				v := *lo
				g.Lo = &v
			}
			if hi != nil {
				v := *hi
				g.Hi = &v
			}
			if g.HasEq {
				if _, isInt := parseInt(g.Eq); isInt {
					g.HasEq, g.Eq = false, ""
				}
			}
			if n == nil {
				n = st.clone()
			}
			if g.empty() {
				delete(n.facts, k)
			} else {
				n.facts[k] = g
			}
		}
		if n != nil {
			res = append(res, n)
		} else {
			res = append(res, st)
		}
	}
	return res
}

func (e *Engine) forStmt(s *ast.ForStmt, in []*State) []*State {
	if s.Init != nil {
		in = e.stmt(s.Init, in)
	}
	var head StateSet
	head.addAll(in)
	e.quiet++
	for iter := 0; ; iter++ {
		cur := compact(head.list)
		cur = e.hookEach(cur, func(st *State) *State { return e.Client.LoopHead(e, st, s) })
		t, _ := e.condOrAll(s.Cond, cur)
		e.pushTarget(s, true)
		out := e.block(s.Body, t)
		out = append(out, e.take(e.cont, s)...)
		e.take(e.brk, s)
		e.popTarget()
		out = e.pruneScope(out, s.Body) // variables of the body die with the iteration
		if s.Post != nil {
			out = e.stmt(s.Post, out)
		}
		out = compact(out)
		if iter >= 1 {
			out = widen(head.list, out)
		}
		if !head.addAll(out) {
			break
		}
		if iter >= maxLoopIters {
			e.unsupported(s, "loop whose abstract state does not stabilise")
			break
		}
	}
	e.quiet--
	cur := compact(head.list)
	cur = e.hookEach(cur, func(st *State) *State { return e.Client.LoopHead(e, st, s) })
	t, f := e.condOrAll(s.Cond, cur)
	e.pushTarget(s, true)
	out := e.block(s.Body, t)
	out = append(out, e.take(e.cont, s)...)
	brk := e.take(e.brk, s)
	e.popTarget()
	if s.Post != nil {
		out = e.stmt(s.Post, out)
	}
	if e.Reporting() {
		// a back edge is a path that goes round again: states that fail the loop condition leave the loop instead
		back := out
		if s.Cond != nil {
			e.quiet++
			back, _ = e.cond(s.Cond, out)
			e.quiet--
		}
		for _, st := range back {
			e.Client.LoopBack(e, st, s)
		}
		e.pruneScope(out, s.Body) // clients see the variables of the body go out of scope at the end of an iteration
	}
	return append(f, brk...)
}

func (e *Engine) rangeStmt(s *ast.RangeStmt, in []*State) []*State {
	in = e.expr(s.X, in)
	// the index of a range over a slice, array or string is 0 in the first iteration and at least 1 afterwards
	indexed := false
	if id, ok := s.Key.(*ast.Ident); ok && id.Name != "_" {
		if t := e.Info.TypeOf(s.X); t != nil {
			switch u := t.Underlying().(type) {
			case *types.Slice, *types.Array:
				indexed = true
			case *types.Basic:
				indexed = u.Info()&types.IsString != 0
			case *types.Pointer:
				_, indexed = u.Elem().Underlying().(*types.Array)
			}
		}
	}
	mark := "rangeiter:" + strconv.Itoa(int(s.Pos()))
	setMark := func(l []*State, v string) []*State {
		if !indexed {
			return l
		}
		out := make([]*State, 0, len(l))
		for _, st := range l {
			out = append(out, st.WithExt(mark, v))
		}
		return out
	}
	bind := func(st *State) *State {
		if s.Key != nil {
			st = e.killTarget(st, s.Key)
		}
		if s.Value != nil {
			st = e.killTarget(st, s.Value)
		}
		if indexed {
			if k := e.canon(st, s.Key); k.OK {
				first := st.Ext(mark) == "0"
				if n := e.update(st, k, func(f *Fact) {
					if first {
						f.HasEq, f.Eq = true, "0"
					} else {
						one := int64(1)
						f.Lo = &one
					}
				}); n != nil {
					st = n
				}
			}
			st = st.WithExt(mark, "")
		}
		return st
	}
	in = setMark(in, "0")
	var head StateSet
	head.addAll(in)
	e.quiet++
	for iter := 0; ; iter++ {
		cur := compact(head.list)
		cur = e.hookEach(cur, func(st *State) *State { return e.Client.LoopHead(e, st, s) })
		cur = e.hookEach(cur, bind)
		e.pushTarget(s, true)
		out := e.block(s.Body, cur)
		out = append(out, e.take(e.cont, s)...)
		e.take(e.brk, s)
		e.popTarget()
		out = e.pruneScope(out, s.Body) // variables of the body die with the iteration
		out = setMark(out, "1")
		out = compact(out)
		if iter >= 1 {
			out = widen(head.list, out)
		}
		if !head.addAll(out) {
			break
		}
		if iter >= maxLoopIters {
			e.unsupported(s, "range loop whose abstract state does not stabilise")
			break
		}
	}
	e.quiet--
	cur := compact(head.list)
	// the loop is left from its head (as a for loop is): what a client resets there is reset on the way out, too
	cur = e.hookEach(cur, func(st *State) *State { return e.Client.LoopHead(e, st, s) })
	// leaving the loop without having gone round is only possible when the operand can be empty
	var exitStates []*State
	for _, st := range cur {
		if indexed && st.Ext(mark) == "0" && e.LenAtLeast(st, s.X, 1) {
			continue
		}
		exitStates = append(exitStates, st)
	}
	exit := compact(setMark(exitStates, ""))
	cur = e.hookEach(cur, bind)
	e.pushTarget(s, true)
	out := e.block(s.Body, cur)
	out = append(out, e.take(e.cont, s)...)
	brk := e.take(e.brk, s)
	e.popTarget()
	if e.Reporting() {
		for _, st := range out {
			e.Client.LoopBack(e, st, s)
		}
		e.pruneScope(out, s.Body) // clients see the variables of the body go out of scope at the end of an iteration
	}
	return append(append([]*State(nil), exit...), brk...)
}

func (e *Engine) switchStmt(s *ast.SwitchStmt, in []*State) []*State {
	if s.Init != nil {
		in = e.stmt(s.Init, in)
	}
	if s.Tag != nil {
		in = e.expr(s.Tag, in)
	}
	remaining := in
	var outs []*State
	e.pushTarget(s, false)
	// the case expressions are evaluated in source order, whatever the bodies do; the default clause takes what is left
	bodyIn := map[*ast.CaseClause][]*State{}
	var dflt *ast.CaseClause
	for _, c := range s.Body.List {
		cc := c.(*ast.CaseClause)
		if cc.List == nil {
			dflt = cc
			continue
		}
		for _, ce := range cc.List {
			if s.Tag == nil {
				t, f := e.cond(ce, remaining)
				bodyIn[cc] = append(bodyIn[cc], t...)
				remaining = f
			} else {
				remaining = e.expr(ce, remaining)
				var t, f []*State
				for _, st := range remaining {
					if n := e.assumeCompare(st, s.Tag, token.EQL, ce, true); n != nil {
						t = append(t, n)
					}
					if n := e.assumeCompare(st, s.Tag, token.EQL, ce, false); n != nil {
						f = append(f, n)
					}
				}
				bodyIn[cc] = append(bodyIn[cc], t...)
				remaining = f
			}
		}
	}
	if dflt != nil {
		bodyIn[dflt] = remaining
	} else {
		outs = append(outs, remaining...)
	}
	// the bodies in source order: a clause that ends in fallthrough hands its states to the body of the next clause
	var carry []*State
	for _, c := range s.Body.List {
		cc := c.(*ast.CaseClause)
		body := cc.Body
		falls := false
		if n := len(body); n > 0 {
			if b, ok := body[n-1].(*ast.BranchStmt); ok && b.Tok == token.FALLTHROUGH {
				body, falls = body[:n-1], true
			}
		}
		res := e.pruneScope(e.stmts(body, append(bodyIn[cc], carry...)), cc)
		carry = nil
		if falls {
			carry = res
		} else {
			outs = append(outs, res...)
		}
	}
	outs = append(outs, carry...)
	outs = append(outs, e.take(e.brk, s)...)
	e.popTarget()
	return outs
}

func (e *Engine) typeSwitchStmt(s *ast.TypeSwitchStmt, in []*State) []*State {
	if s.Init != nil {
		in = e.stmt(s.Init, in)
	}
	tsi := typeSwitchOf(e.Info, s)
	in = e.expr(tsi.Tag, in)
	remaining := in
	var outs []*State
	e.pushTarget(s, false)
	run := func(cc *ast.CaseClause, bodyIn []*State) {
		if v := clauseVar(e.Info, cc); v != nil {
			bodyIn = e.hookEach(bodyIn, func(st *State) *State {
				st = st.killObj(v)
				if tk := e.canon(st, tsi.Tag); tk.OK && e.tracked(tk) {
					self := false
					for _, o := range tk.Objs {
						if o == types.Object(v) {
							self = true
						}
					}
					if !self {
						ak := keyInfo{Key: "val:" + e.objKey(v), Objs: append([]types.Object{v}, tk.Objs...), Fields: tk.Fields, Heap: tk.Heap, OK: true}
						t := tk
						if n := e.update(st, ak, func(f *Fact) { f.Alias = &t }); n != nil {
							return n
						}
					}
				}
				ts := tsi.Types[cc]
				if cc.List != nil {
					st2 := e.assumeTypeKey(st, keyInfo{Key: e.objKey(v), Objs: []types.Object{v}, OK: true}, ts, true)
					if st2 != nil {
						st = st2
					}
				}
				return st
			})
		}
		outs = append(outs, e.pruneScope(e.stmts(cc.Body, bodyIn), cc)...)
	}
	for _, cc := range tsi.Clauses {
		if cc.List == nil {
			continue
		}
		ts := tsi.Types[cc]
		var bodyIn, rest []*State
		for _, st := range remaining {
			if n := e.assumeType(st, tsi.Tag, ts, true); n != nil {
				bodyIn = append(bodyIn, n)
			}
			if n := e.assumeType(st, tsi.Tag, ts, false); n != nil {
				rest = append(rest, n)
			}
		}
		remaining = rest
		run(cc, bodyIn)
	}
	if tsi.Default != nil {
		run(tsi.Default, remaining)
	} else {
		outs = append(outs, remaining...)
	}
	outs = append(outs, e.take(e.brk, s)...)
	e.popTarget()
	return outs
}

// ---------- expressions

func (e *Engine) visit(n ast.Node, in []*State) []*State {
	return e.hookEach(in, func(st *State) *State { return e.Client.Visit(e, st, n) })
}

func (e *Engine) expr(x ast.Expr, in []*State) []*State {
	if x == nil || len(in) == 0 {
		return in
	}
	switch x := x.(type) {
	case *ast.ParenExpr:
		return e.expr(x.X, in)
	case *ast.BinaryExpr:
		if x.Op == token.LAND || x.Op == token.LOR {
			t, f := e.cond(x, in)
			return append(t, f...)
		}
		in = e.expr(x.X, in)
		in = e.expr(x.Y, in)
		if x.Op == token.QUO || x.Op == token.REM {
			in = e.visit(x, in)
		}
		return in
	case *ast.UnaryExpr:
		if x.Op == token.ARROW {
			e.unsupported(x, "channel receive")
		}
		if x.Op == token.NOT {
			t, f := e.cond(x.X, in)
			return append(t, f...)
		}
		return e.expr(x.X, in)
	case *ast.CallExpr:
		return e.call(x, in)
	case *ast.IndexExpr:
		if tv, ok := e.Info.Types[x.X]; ok && !tv.IsValue() {
			return in // generic instantiation
		}
		if _, isFn := e.Info.TypeOf(x.X).Underlying().(*types.Signature); isFn {
			return in
		}
		in = e.expr(x.X, in)
		in = e.expr(x.Index, in)
		if entries := e.P.constTable(x.X); entries != nil && constOf(e.Info, x.Index) == nil {
			// a look-up in a constant table: one state per row the key may name, and one for a key that names none
			var res []*State
			for _, st := range in {
				res = append(res, e.tableLookup(st, x, entries)...)
			}
			in = compact(res)
		}
		return e.visit(x, in)
	case *ast.SliceExpr:
		in = e.expr(x.X, in)
		in = e.expr(x.Low, in)
		in = e.expr(x.High, in)
		in = e.expr(x.Max, in)
		return e.visit(x, in)
	case *ast.StarExpr:
		in = e.expr(x.X, in)
		return e.visit(x, in)
	case *ast.SelectorExpr:
		if _, ok := e.Info.Selections[x]; ok {
			in = e.expr(x.X, in)
			return e.visit(x, in)
		}
		return in
	case *ast.TypeAssertExpr:
		in = e.expr(x.X, in)
		return e.visit(x, in)
	case *ast.CompositeLit:
		for _, el := range x.Elts {
			if kv, ok := el.(*ast.KeyValueExpr); ok {
				if _, isStruct := e.Info.TypeOf(x).Underlying().(*types.Struct); !isStruct {
					in = e.expr(kv.Key, in)
				}
				in = e.expr(kv.Value, in)
			} else {
				in = e.expr(el, in)
			}
		}
		return e.visit(x, in)
	case *ast.FuncLit:
		e.noteLit(x)
		return in
	case *ast.KeyValueExpr:
		return e.expr(x.Value, in)
	}
	return in
}

func (e *Engine) call(x *ast.CallExpr, in []*State) []*State {
	info := e.Info
	if tv, ok := info.Types[x.Fun]; ok && tv.IsType() {
		for _, a := range x.Args {
			in = e.expr(a, in)
		}
		return in
	}
	builtin := ""
	if id, ok := ast.Unparen(x.Fun).(*ast.Ident); ok {
		if b, ok := info.Uses[id].(*types.Builtin); ok {
			builtin = b.Name()
		}
	}
	switch f := ast.Unparen(x.Fun).(type) {
	case *ast.SelectorExpr:
		if _, ok := info.Selections[f]; ok {
			in = e.expr(f.X, in)
		}
	case *ast.Ident:
	case *ast.FuncLit:
		e.noteLit(f)
	default:
		in = e.expr(x.Fun, in)
	}
	for _, a := range x.Args {
		in = e.expr(a, in)
	}
	callee := Callee(info, x)
	var closure *ast.FuncDecl
	if callee == nil && builtin == "" {
		if cf, cd := e.closureTarget(x); cd != nil {
			callee, closure = cf, cd
		}
	}
	in = e.hookEach(in, func(st *State) *State { return e.Client.PreCall(e, st, x, callee) })
	if builtin == "panic" {
		return nil
	}
	if closure != nil {
		in = e.inlineCall(x, callee, closure, in)
	} else if decl := e.inlineTarget(x, callee); decl != nil {
		in = e.inlineCall(x, callee, decl, in)
	} else {
		in = e.hookEach(in, func(st *State) *State { return e.callEffects(st, x, callee, builtin) })
		// a local closure that is not interpreted in place assigns the variables it captures
		if id, ok := ast.Unparen(x.Fun).(*ast.Ident); ok {
			if assigned := e.closureAssigns[objOf(info, id)]; len(assigned) > 0 {
				in = e.hookEach(in, func(st *State) *State {
					for _, o := range assigned {
						st = st.killObj(o)
					}
					return st
				})
			}
		}
	}
	in = e.hookEach(in, func(st *State) *State { return e.Client.PostCall(e, st, x, callee) })
	return in
}

// callEffects removes the facts a call may invalidate.
func (e *Engine) callEffects(st *State, x *ast.CallExpr, callee *types.Func, builtin string) *State {
	sums := e.P.Summaries()
	switch builtin {
	case "":
	case "delete", "copy", "clear":
		return st.killHeapIndex()
	default:
		return st
	}
	var ws *writeSet
	unknown := false
	if callee != nil {
		isIface := false
		if sel, ok := ast.Unparen(x.Fun).(*ast.SelectorExpr); ok {
			if selc, ok := e.Info.Selections[sel]; ok {
				_, isIface = selc.Recv().Underlying().(*types.Interface)
			}
		}
		if isIface {
			ws = newWriteSet()
			for fn2, w2 := range sums.Writes {
				if fn2.Name() == callee.Name() && fn2.Type().(*types.Signature).Recv() != nil {
					ws.merge(w2)
				}
			}
		} else if w, ok := sums.Writes[callee]; ok {
			ws = w
		} else if w, ok := sums.Writes[callee.Origin()]; ok {
			ws = w
		} else {
			// non-module callee: does not write module-typed fields. If a function value is passed
			// to it (callbacks), be conservative.
			for _, a := range x.Args {
				if _, isSig := e.Info.TypeOf(a).Underlying().(*types.Signature); isSig {
					unknown = true
				}
			}
			if !unknown {
				return st
			}
		}
	} else if fld := selField(e.Info, x.Fun); fld != nil {
		if cs := sums.CalleesOfField(fld); len(cs) > 0 {
			ws = newWriteSet()
			for _, c := range cs {
				if w, ok := sums.Writes[c]; ok {
					ws.merge(w)
				}
			}
		} else {
			unknown = true
		}
	} else if _, ok := ast.Unparen(x.Fun).(*ast.FuncLit); ok {
		unknown = true
	} else {
		unknown = true
	}
	// what hangs off a local allocation that never leaves the function (x := &T{...}, only ever used as x.f and
	// x.m(...)) cannot be reached by a call that does not receive x
	outOfReach := func(f *Fact) bool {
		if len(f.ObjDeps) == 0 {
			return false
		}
		for _, o := range f.ObjDeps {
			if !e.P.privateAlloc(o) || e.callMentions(x, o) {
				return false
			}
		}
		return true
	}
	if unknown || (ws != nil && ws.All) {
		return st.kill(func(_ string, f *Fact) bool {
			if outOfReach(f) {
				return false
			}
			if f.Heap {
				return true
			}
			for _, fld := range f.FieldDeps {
				if !sums.IsFrozen(fld) {
					return true
				}
			}
			for _, o := range f.ObjDeps {
				if v, ok := o.(*types.Var); ok && v.Pkg() != nil && v.Parent() == v.Pkg().Scope() {
					return true
				}
			}
			return false
		})
	}
	if ws == nil {
		return st
	}
	return st.kill(func(_ string, f *Fact) bool {
		if outOfReach(f) {
			return false
		}
		if ws.Index && f.Heap {
			return true
		}
		for _, fld := range f.FieldDeps {
			if ws.Fields[fld] {
				return true
			}
		}
		for _, o := range f.ObjDeps {
			if v, ok := o.(*types.Var); ok && ws.Globals[v] {
				return true
			}
		}
		return false
	})
}

// ---------- assignment

// lhsSub evaluates the sub-expressions of an assignment target (not the target itself).
func (e *Engine) lhsSub(l ast.Expr, in []*State) []*State {
	switch x := ast.Unparen(l).(type) {
	case *ast.IndexExpr:
		in = e.expr(x.X, in)
		in = e.expr(x.Index, in)
		return e.visit(x, in)
	case *ast.SelectorExpr:
		if _, ok := e.Info.Selections[x]; ok {
			in = e.expr(x.X, in)
			return e.visit(x, in)
		}
	case *ast.StarExpr:
		in = e.expr(x.X, in)
		return e.visit(x, in)
	}
	return in
}

// killTarget removes the facts invalidated by a store to l.
func (e *Engine) killTarget(st *State, l ast.Expr) *State {
	switch x := ast.Unparen(l).(type) {
	case *ast.Ident:
		if x.Name == "_" {
			return st
		}
		return st.killObj(objOf(e.Info, x))
	case *ast.SelectorExpr:
		if fld := selField(e.Info, x); fld != nil {
			// a store into a field of a local struct value changes that variable
			if sel, ok := e.Info.Selections[x]; ok && !sel.Indirect() {
				if b := e.canon(st, x.X); b.OK && b.Value {
					for _, o := range b.Objs {
						st = st.killObj(o)
					}
				}
			}
			return st.killField(fld)
		}
		if v, ok := e.Info.Uses[x.Sel].(*types.Var); ok {
			return st.killObj(v)
		}
	case *ast.IndexExpr:
		return st.killHeapIndex()
	case *ast.StarExpr:
		if s := StructOf(e.Info.TypeOf(x)); s != nil {
			for i := 0; i < s.NumFields(); i++ {
				st = st.killField(s.Field(i))
			}
			return st.killHeapIndex()
		}
		return st.kill(func(_ string, f *Fact) bool { return f.Heap || len(f.FieldDeps) > 0 })
	}
	return st
}

func (e *Engine) tracked(k keyInfo) bool {
	if !k.OK {
		return false
	}
	for _, o := range k.Objs {
		if e.noFacts[o] {
			return false
		}
	}
	return true
}

// update applies mod to (a copy of) the fact for key k; returns nil if the result is contradictory.
func (e *Engine) update(st *State, k keyInfo, mod func(f *Fact)) *State {
	if !e.tracked(k) {
		return st
	}
	var f *Fact
	if old := st.facts[k.Key]; old != nil {
		f = old.clone()
	} else {
		f = &Fact{ObjDeps: dedupeObjs(k.Objs), FieldDeps: dedupeFields(k.Fields), Heap: k.Heap}
		if strings.HasPrefix(k.Key, "len(") || strings.HasPrefix(k.Key, "cap(") {
			z := int64(0)
			f.Lo = &z
		}
	}
	mod(f)
	// (len(x)-c) is at least len(x)'s lower bound minus c
	if strings.HasPrefix(k.Key, "(len(") && strings.HasSuffix(k.Key, ")") {
		if i := strings.LastIndex(k.Key, ")-"); i > 0 {
			if c, ok := parseInt(k.Key[i+2 : len(k.Key)-1]); ok {
				if lf := st.facts[k.Key[1:i+1]]; lf != nil && lf.Lo != nil {
					lo := *lf.Lo - c
					if f.Lo == nil || *f.Lo < lo {
						f.Lo = &lo
					}
				}
			}
		}
	}
	if !normalizeFact(f) {
		return nil
	}
	return st.with(k.Key, f)
}

// normalizeFact tightens a fact and reports whether it is satisfiable.
func normalizeFact(f *Fact) bool {
	if f.Nil < 0 {
		return false
	}
	if f.HasEq {
		if hasStr(f.Ne, f.Eq) {
			return false
		}
		if n, ok := parseInt(f.Eq); ok {
			if f.Lo != nil && n < *f.Lo || f.Hi != nil && n > *f.Hi {
				return false
			}
			f.Lo, f.Hi = &n, new(int64)
			*f.Hi = n
		}
	}
	for f.Lo != nil && hasStr(f.Ne, fmt.Sprint(*f.Lo)) {
		v := *f.Lo + 1
		f.Lo = &v
	}
	for f.Hi != nil && hasStr(f.Ne, fmt.Sprint(*f.Hi)) {
		v := *f.Hi - 1
		f.Hi = &v
	}
	if f.Lo != nil && f.Hi != nil {
		if *f.Lo > *f.Hi {
			return false
		}
		if *f.Lo == *f.Hi && !f.HasEq {
			f.HasEq, f.Eq = true, fmt.Sprint(*f.Lo)
		}
	}
	if f.Nil == 1 && f.TyIn != nil {
		return false
	}
	if f.TyIn != nil {
		var left []string
		for _, t := range f.TyIn {
			if !hasStr(f.TyOut, t) {
				left = append(left, t)
			}
		}
		if len(left) == 0 {
			return false
		}
		f.TyIn = left
		f.Nil = 2
	}
	return true
}

func parseInt(s string) (int64, bool) {
	var n int64
	if _, err := fmt.Sscanf(s, "%d", &n); err != nil || fmt.Sprint(n) != s {
		return 0, false
	}
	return n, true
}

// setZero records the zero value of a freshly declared variable.
func (e *Engine) setZero(st *State, id *ast.Ident) *State {
	obj := e.Info.Defs[id]
	if obj == nil {
		return st
	}
	k := keyInfo{Key: e.objKey(obj), Objs: []types.Object{obj}, OK: true}
	var n *State
	switch t := obj.Type().Underlying().(type) {
	case *types.Pointer, *types.Interface, *types.Slice, *types.Map, *types.Signature, *types.Chan:
		n = e.update(st, k, func(f *Fact) { f.Nil = 1 })
		if _, isSlice := t.(*types.Slice); isSlice && n != nil {
			lk := k
			lk.Key = "len(" + k.Key + ")"
			n = e.update(n, lk, func(f *Fact) { f.HasEq, f.Eq = true, "0" })
		}
	case *types.Basic:
		switch {
		case t.Info()&types.IsBoolean != 0:
			n = e.update(st, k, func(f *Fact) { f.HasEq, f.Eq = true, "false" })
		case t.Info()&types.IsInteger != 0:
			n = e.update(st, k, func(f *Fact) { f.HasEq, f.Eq = true, "0" })
		case t.Info()&types.IsString != 0:
			n = e.update(st, k, func(f *Fact) { f.HasEq, f.Eq = true, `""` })
		}
	}
	if n == nil {
		return st
	}
	return n
}

// rhsValue describes what an assigned expression is known to be.
type rhsValue struct {
	f     *Fact // value part only (Nil/Eq/...), may be nil
	alias *Fact // alias tags for comma-ok forms
}

func (e *Engine) valueOf(st *State, x ast.Expr) *Fact {
	x = ast.Unparen(x)
	if tv, ok := e.Info.Types[x]; ok && tv.Value != nil {
		return &Fact{HasEq: true, Eq: constKey(tv.Value)}
	}
	if isNilIdent(e.Info, x) {
		return &Fact{Nil: 1}
	}
	switch v := x.(type) {
	case *ast.UnaryExpr:
		if v.Op == token.AND {
			f := &Fact{Nil: 2, Tags: []string{"fresh:addr"}}
			if cl, ok := ast.Unparen(v.X).(*ast.CompositeLit); ok {
				if t := e.Info.TypeOf(cl); t != nil {
					f.TyIn = []string{"*" + TypeStr(t)} // the dynamic type, should the value end up in an interface
				}
			}
			return f
		}
	case *ast.CompositeLit:
		switch e.Info.TypeOf(v).Underlying().(type) {
		case *types.Slice, *types.Map:
			return &Fact{Nil: 2, Tags: []string{"fresh:lit"}}
		}
		return nil
	case *ast.FuncLit:
		return &Fact{Nil: 2}
	case *ast.BinaryExpr:
		// "a" + b with both operands known string constants on this path: their concatenation
		if v.Op == token.ADD {
			if bt, isB := e.Info.TypeOf(v).Underlying().(*types.Basic); isB && bt.Info()&types.IsString != 0 {
				fx, fy := e.valueOf(st, v.X), e.valueOf(st, v.Y)
				if fx != nil && fy != nil && fx.HasEq && fy.HasEq && len(fx.Eq) >= 2 && len(fy.Eq) >= 2 && fx.Eq[0] == '"' && fy.Eq[0] == '"' {
					sx, ex := strconv.Unquote(fx.Eq)
					sy, ey := strconv.Unquote(fy.Eq)
					if ex == nil && ey == nil {
						return &Fact{HasEq: true, Eq: fmt.Sprintf("%q", sx+sy)}
					}
				}
				return nil
			}
		}
		// x + k / x - k with bounds known for x: the bounds shifted
		if v.Op == token.ADD || v.Op == token.SUB {
			if k, ok := constInt(e.Info, v.Y); ok {
				if xk := e.canon(st, v.X); xk.OK {
					if f := st.facts[xk.Key]; f != nil && (f.Lo != nil || f.Hi != nil) {
						if v.Op == token.SUB {
							k = -k
						}
						g := &Fact{}
						if f.Lo != nil {
							lo := *f.Lo + k
							g.Lo = &lo
						}
						if f.Hi != nil {
							hi := *f.Hi + k
							g.Hi = &hi
						}
						return g
					}
				}
			}
		}
	case *ast.CallExpr:
		if IsBuiltinCall(e.Info, v, "new") || IsBuiltinCall(e.Info, v, "make") {
			return &Fact{Nil: 2, Tags: []string{"fresh:new"}}
		}
		if f := Callee(e.Info, v); f != nil {
			switch f.FullName() {
			case "fmt.Errorf", "errors.New":
				return &Fact{Nil: 2}
			}
			// a module function with one result that returns a freshly made value on every path
			if e.P.freshResult(f) {
				return &Fact{Nil: 2, Tags: []string{"fresh:new"}}
			}
		}
	}
	if k := e.canon(st, x); k.OK {
		if f := st.facts[k.Key]; f != nil {
			g := f.clone()
			g.ObjDeps, g.FieldDeps, g.Heap, g.Alias = nil, nil, false, nil
			return g
		}
	}
	// a package-level variable that is never assigned and is initialised with a fresh non-nil value
	// (var errFailed = errors.New("..."))
	if id, ok := x.(*ast.Ident); ok {
		if g, isVar := objOf(e.Info, id).(*types.Var); isVar && g.Pkg() != nil && g.Parent() == g.Pkg().Scope() && e.P.globalNeverWritten(g) {
			if init := e.P.globalInitExpr(g); init != nil {
				if _, again := ast.Unparen(init).(*ast.Ident); !again {
					if f := e.valueOf(newState(), init); f != nil && f.Nil == 2 {
						return &Fact{Nil: 2}
					}
				}
			}
		}
	}
	return nil
}

// aliasTarget returns the path a variable assigned from r will denote, if r is a stable path expression.
func (e *Engine) aliasTarget(st *State, r ast.Expr) *keyInfo {
	r = ast.Unparen(r)
	switch x := r.(type) {
	case *ast.Ident:
		if e.isResultIdent(x) {
			// the result variable of a helper interpreted in place is short-lived: only what it denotes is kept
			if o := e.Info.Defs[x]; o != nil {
				if a := st.facts["val:"+e.objKey(o)]; a != nil && a.Alias != nil {
					t := *a.Alias
					return &t
				}
			}
			return nil
		}
	case *ast.SelectorExpr, *ast.IndexExpr, *ast.StarExpr:
	case *ast.BinaryExpr:
		// last := len(s) - 1 names that offset while s keeps its value
		if x.Op != token.SUB && x.Op != token.ADD {
			return nil
		}
		if _, ok := constInt(e.Info, x.Y); !ok {
			return nil
		}
		if call, ok := ast.Unparen(x.X).(*ast.CallExpr); !ok || !IsBuiltinCall(e.Info, call, "len") {
			return nil
		}
	case *ast.TypeAssertExpr:
		if x.Type == nil {
			return nil
		}
	case *ast.CallExpr:
		if ids := e.inlined[x]; len(ids) >= 1 {
			// the result of a helper interpreted in place: the path its result variable denotes, if any
			if o := e.Info.Defs[ids[0]]; o != nil {
				if a := st.facts["val:"+e.objKey(o)]; a != nil && a.Alias != nil {
					t := *a.Alias
					return &t
				}
			}
			return nil
		}
		if !IsBuiltinCall(e.Info, x, "len") && !IsBuiltinCall(e.Info, x, "cap") {
			// v := f(args) with f free of side effects: v names that value while the arguments keep theirs
			// (facts about it outlive v's scope)
			if callee := Callee(e.Info, x); callee == nil || !e.pureCallee(callee) || callee.Type().(*types.Signature).Results().Len() != 1 {
				return nil
			}
			if _, basic := e.Info.TypeOf(x).Underlying().(*types.Basic); !basic {
				return nil
			}
		}
		// n := len(v) names the length only while v keeps its value: if v is assigned again later, n is a number
		// of its own (facts about it must survive the change of v)
	default:
		return nil
	}
	if tv, ok := e.Info.Types[r]; ok && tv.Value != nil {
		return nil
	}
	if isNilIdent(e.Info, r) {
		return nil
	}
	k := e.canon(st, r)
	if !k.OK || !e.tracked(k) {
		return nil
	}
	// a local that receives the value of a package-level variable holds a copy: what is known about it must not
	// die with what is known about the global at the next call
	for _, o := range k.Objs {
		if g, ok := o.(*types.Var); ok && !g.IsField() && g.Pkg() != nil && g.Parent() == g.Pkg().Scope() {
			return nil
		}
	}
	return &k
}

// setAlias records that variable l denotes target (after l's old facts were killed).
func (e *Engine) setAlias(st *State, l ast.Expr, target *keyInfo) *State {
	id, ok := ast.Unparen(l).(*ast.Ident)
	if !ok || id.Name == "_" || target == nil {
		return st
	}
	obj := objOf(e.Info, id)
	v, isVar := obj.(*types.Var)
	if !isVar || e.noFacts[obj] || (v.Pkg() != nil && v.Parent() == v.Pkg().Scope()) {
		return st
	}
	for _, o := range target.Objs {
		if o == obj {
			return st // self-reference: x = x.f
		}
	}
	// a variable must not be named after a shorter-lived one (declared later, in an inner scope): when that one goes
	// out of scope everything known about both would be forgotten. The facts are copied instead.
	if !e.isResultIdent(id) && !e.bindingParams {
		cur := e.CurFunc()
		inCur := func(p token.Pos) bool { return cur != nil && p >= cur.Pos() && p < cur.End() }
		for _, o := range target.Objs {
			if lv, ok := o.(*types.Var); ok && !lv.IsField() && lv.Pkg() != nil && lv.Parent() != lv.Pkg().Scope() && lv.Pos() > obj.Pos() && !strings.HasPrefix(lv.Name(), "ret") && inCur(lv.Pos()) && inCur(obj.Pos()) {
				return st
			}
		}
	}
	if len(e.frames) > 0 && !e.isResultIdent(id) && !e.bindingParams {
		// inside a helper (or closure) interpreted in place: a variable of the caller must not be named after one of
		// the helper's locals, which disappear when it returns
		d := e.frames[len(e.frames)-1].Decl
		if obj.Pos() < d.Pos() || obj.Pos() >= d.End() {
			for _, o := range target.Objs {
				if lv, ok := o.(*types.Var); ok && !lv.IsField() && o.Pos() >= d.Pos() && o.Pos() < d.End() {
					return st
				}
			}
		}
	}
	if e.isResultIdent(id) && len(e.frames) > 0 {
		// a result variable outlives the helper's locals: it may only denote paths the caller can see
		d := e.frames[len(e.frames)-1].Decl
		for _, o := range target.Objs {
			if o.Pos() >= d.Pos() && o.Pos() < d.End() {
				return st
			}
		}
	}
	soft := e.softAlias(target)
	ak := keyInfo{Key: "val:" + e.objKey(obj), Objs: append([]types.Object{obj}, target.Objs...), Fields: target.Fields, Heap: target.Heap, OK: true}
	t := *target
	if n := e.update(st, ak, func(f *Fact) {
		f.Alias = &t
		if soft {
			f.Tags = []string{"soft"}
		}
	}); n != nil {
		return n
	}
	return st
}

// softAlias: n := len(v) (or len(v)-k) while v is assigned again later. The name is remembered (SoftKey) but facts
// about n are kept under n itself, so that they survive the change of v.
func (e *Engine) softAlias(target *keyInfo) bool {
	if !strings.HasPrefix(target.Key, "len(") && !strings.HasPrefix(target.Key, "cap(") && !strings.HasPrefix(target.Key, "(len(") {
		return false
	}
	for _, o := range target.Objs {
		if !e.P.neverReassigned(o) {
			return true
		}
	}
	return false
}

// SoftKey: the path a variable was defined as (hard or soft alias), if that definition still holds.
func (e *Engine) SoftKey(st *State, x ast.Expr) (string, bool) {
	id, ok := ast.Unparen(x).(*ast.Ident)
	if !ok {
		return "", false
	}
	o := objOf(e.Info, id)
	if o == nil {
		return "", false
	}
	if a := st.facts["val:"+e.objKey(o)]; a != nil && a.Alias != nil {
		return a.Alias.Key, true
	}
	return "", false
}

func (e *Engine) assign(lhs, rhs []ast.Expr, tok token.Token, stmt ast.Stmt, in []*State) []*State {
	out := e.assign1(lhs, rhs, tok, stmt, in)
	if len(lhs) == 2 && len(rhs) == 1 {
		if ix, ok := ast.Unparen(rhs[0]).(*ast.IndexExpr); ok {
			if entries := e.P.constTable(ix.X); entries != nil {
				var res []*State
				for _, st := range out {
					res = append(res, e.tableSplit(st, lhs, ix, entries)...)
				}
				out = compact(res)
			}
		}
	}
	if sp, ok := e.Client.(Splitter); ok {
		var res []*State
		for _, st := range out {
			if parts := sp.SplitAssign(e, st, lhs, rhs, stmt); parts != nil {
				res = append(res, parts...)
			} else {
				res = append(res, st)
			}
		}
		return res
	}
	return out
}

func (e *Engine) assign1(lhs, rhs []ast.Expr, tok token.Token, stmt ast.Stmt, in []*State) []*State {
	simple := tok == token.ASSIGN || tok == token.DEFINE
	// b := <compound boolean expression>: the two outcomes are kept apart, so a later `if b` knows what held
	if simple && len(lhs) == 1 && len(rhs) == 1 && e.compoundBool(rhs[0]) {
		if id, isId := ast.Unparen(lhs[0]).(*ast.Ident); !isId || id.Name != "_" {
			var o types.Object
			if isId {
				o = objOf(e.Info, id)
			}
			if !isId || (o != nil && !e.noFacts[o]) {
				t, f := e.cond(rhs[0], in)
				in = e.lhsSub(lhs[0], append(t, f...))
				nt := len(t)
				i := 0
				return e.hookEach(in, func(st *State) *State {
					v := &Fact{HasEq: true, Eq: "false"}
					if i < nt {
						v.Eq = "true"
					}
					i++
					return e.assignCore(st, lhs, rhs, tok, stmt, []*Fact{v})
				})
			}
		}
	}
	for _, r := range rhs {
		in = e.expr(r, in)
	}
	for _, l := range lhs {
		in = e.lhsSub(l, in)
	}
	return e.hookEach(in, func(st *State) *State { return e.assignCore(st, lhs, rhs, tok, stmt, nil) })
}

// compoundBool: a non-constant boolean expression built from comparisons, !, && and ||.
func (e *Engine) compoundBool(x ast.Expr) bool {
	x = ast.Unparen(x)
	tv, ok := e.Info.Types[x]
	if !ok || tv.Value != nil {
		return false
	}
	b, isBasic := tv.Type.Underlying().(*types.Basic)
	if !isBasic || b.Info()&types.IsBoolean == 0 {
		return false
	}
	switch v := x.(type) {
	case *ast.BinaryExpr:
		return true
	case *ast.UnaryExpr:
		return v.Op == token.NOT
	}
	return false
}

// assignCore is the effect of one assignment on one state (sub-expressions are already evaluated).
// forced, if given, replaces what is known about the assigned values.
func (e *Engine) assignCore(st *State, lhs, rhs []ast.Expr, tok token.Token, stmt ast.Stmt, forced []*Fact) *State {
	if n := e.Client.PreAssign(e, st, lhs, rhs, stmt); n != nil {
		st = n
	}
	simple := tok == token.ASSIGN || tok == token.DEFINE
	// a, b := f() with f interpreted in place: the values are those of its result variables
	origRhs := rhs
	if simple && len(rhs) == 1 && len(lhs) > 1 {
		if call, ok := ast.Unparen(rhs[0]).(*ast.CallExpr); ok {
			if ids := e.inlined[call]; len(ids) == len(lhs) {
				rhs = make([]ast.Expr, len(ids))
				for i, id := range ids {
					rhs[i] = id
				}
			}
		}
	}
	var vals []*Fact
	if simple && len(lhs) == len(rhs) {
		for _, r := range rhs {
			vals = append(vals, e.valueOf(st, r))
		}
		if forced != nil {
			vals = forced
		}
	}
	// len(x) after x = append(x, ...) grows; after x = x[:len(x)-1] shrinks: handled by kill (len key depends on x).
	var lenAfter []*int64
	var aliases []*keyInfo
	if simple && len(lhs) == len(rhs) {
		for i, r := range rhs {
			lenAfter = append(lenAfter, e.lenLowerBound(st, lhs[i], r))
			aliases = append(aliases, e.aliasTarget(st, r))
		}
	}
	// x := &T{F: v, ...} / x = T{F: v}: what is known about v is known about x.F (judged before x is overwritten)
	var litFacts []map[*types.Var]*Fact
	if simple && len(lhs) == len(rhs) {
		for _, r := range rhs {
			var m map[*types.Var]*Fact
			if lit := litOf(r); lit != nil {
				if _, isStruct := e.Info.TypeOf(lit).Underlying().(*types.Struct); isStruct {
					for _, el := range lit.Elts {
						kv, isKV := el.(*ast.KeyValueExpr)
						if !isKV {
							continue
						}
						fld, _ := objOf(e.Info, kv.Key).(*types.Var)
						if fld == nil {
							continue
						}
						if f := e.valueOf(st, kv.Value); f != nil && (f.Nil != 0 || f.HasEq || f.Lo != nil || f.Hi != nil || len(f.Tags) > 0 || len(f.TyIn) > 0) {
							if m == nil {
								m = map[*types.Var]*Fact{}
							}
							m[fld] = f
						}
					}
				}
			}
			// v := T[k] with T a constant table of struct rows: what the look-up established about the row's fields
			if ix, isIx := ast.Unparen(r).(*ast.IndexExpr); isIx && m == nil && e.P.constTable(ix.X) != nil {
				if stt, isStruct := e.Info.TypeOf(ix).Underlying().(*types.Struct); isStruct {
					if rk := e.canon(st, ix); rk.OK {
						for i := 0; i < stt.NumFields(); i++ {
							if f := st.facts[rk.Key+"."+fldName(stt.Field(i))]; f != nil && f.HasEq {
								if m == nil {
									m = map[*types.Var]*Fact{}
								}
								m[stt.Field(i)] = &Fact{HasEq: true, Eq: f.Eq}
							}
						}
					}
				}
			}
			litFacts = append(litFacts, m)
		}
	}
	var okAlias *keyInfo
	if simple && len(lhs) == 2 && len(rhs) == 1 {
		if ta, ok := ast.Unparen(rhs[0]).(*ast.TypeAssertExpr); ok {
			okAlias = e.aliasTarget(st, ta)
		}
	}
	for _, l := range lhs {
		st = e.killTarget(st, l)
	}
	if okAlias != nil {
		st = e.setAlias(st, lhs[0], okAlias)
	}
	if simple && len(lhs) == len(rhs) {
		for i, l := range lhs {
			// a value of a concrete type stored into an interface variable: the variable is a non-nil interface
			// whatever the pointer inside is, so it must not become another name of the pointer's path (a nil test
			// of the interface says nothing about the pointer); where it came from is kept as a tag
			if bt := e.boxedType(l, rhs[i]); bt != nil {
				k := e.canon(st, l)
				if k.OK {
					tags := []string{}
					if aliases[i] != nil {
						tags = append(tags, "boxed:"+aliases[i].Key)
					}
					if n := e.update(st, k, func(f *Fact) {
						f.Nil = 2
						f.TyIn = []string{TypeStr(bt)}
						f.Tags = tags
					}); n != nil {
						st = n
					}
				}
				continue
			}
			if aliases[i] != nil {
				st = e.setAlias(st, l, aliases[i])
			}
			k := e.canon(st, l)
			if !k.OK {
				continue
			}
			if v := vals[i]; v != nil {
				if n := e.update(st, k, func(f *Fact) {
					f.Nil, f.HasEq, f.Eq, f.Ne, f.Lo, f.Hi, f.TyIn, f.TyOut, f.Tags = v.Nil, v.HasEq, v.Eq, v.Ne, v.Lo, v.Hi, v.TyIn, v.TyOut, v.Tags
				}); n != nil {
					st = n
				}
			}
			if i < len(litFacts) && litFacts[i] != nil {
				for fld, v := range litFacts[i] {
					fk := k.merge(keyInfo{Fields: []*types.Var{fld}})
					fk.Key, fk.OK, fk.Value = k.Key+"."+fldName(fld), true, false
					v := v
					if n := e.update(st, fk, func(f *Fact) {
						f.Nil, f.HasEq, f.Eq, f.Ne, f.Lo, f.Hi, f.TyIn, f.TyOut, f.Tags = v.Nil, v.HasEq, v.Eq, v.Ne, v.Lo, v.Hi, v.TyIn, v.TyOut, v.Tags
					}); n != nil {
						st = n
					}
				}
			}
			if lb := lenAfter[i]; lb != nil {
				lk := k
				lk.Key = "len(" + k.Key + ")"
				if n := e.update(st, lk, func(f *Fact) {
					if f.Lo == nil || *f.Lo < *lb {
						f.Lo = lb
					}
				}); n != nil {
					st = n
				}
			}
		}
	}
	if simple && len(lhs) == 2 && len(rhs) == 1 {
		st = e.commaOK(st, lhs, rhs[0])
	}
	if n := e.Client.PostAssign(e, st, lhs, origRhs, stmt); n != nil {
		st = n
	}
	return st
}

// SetLenAtLeast records len(x) >= n.
func (e *Engine) SetLenAtLeast(st *State, x ast.Expr, n int64) *State {
	k := e.canon(st, x)
	if !k.OK {
		return st
	}
	lk := k
	lk.Key = "len(" + k.Key + ")"
	if out := e.update(st, lk, func(f *Fact) {
		if f.Lo == nil || *f.Lo < n {
			f.Lo = &n
		}
	}); out != nil {
		return out
	}
	return st
}

// SetLenOfVar records len(v) == n for a variable.
func (e *Engine) SetLenOfVar(st *State, v types.Object, n int64) *State {
	k := keyInfo{Key: "len(" + e.objKey(v) + ")", Objs: []types.Object{v}, OK: true}
	if out := e.update(st, k, func(f *Fact) {
		lo, hi := n, n
		f.Lo, f.Hi = &lo, &hi
	}); out != nil {
		return out
	}
	return st
}

// callMentions: the variable (through parameter bindings of helpers interpreted in place) occurs in the call's
// receiver or arguments.
func (e *Engine) callMentions(x *ast.CallExpr, o types.Object) bool {
	found := false
	check := func(n ast.Node) {
		ast.Inspect(n, func(m ast.Node) bool {
			if id, ok := m.(*ast.Ident); ok {
				if objOf(e.Info, id) == o {
					found = true
				} else if r := e.ResolveExpr(id); r != ast.Expr(id) {
					ast.Inspect(r, func(k ast.Node) bool {
						if id2, ok := k.(*ast.Ident); ok && objOf(e.Info, id2) == o {
							found = true
						}
						return !found
					})
				}
			}
			return !found
		})
	}
	check(x.Fun)
	for _, a := range x.Args {
		// a string, number or boolean computed from the variable hands nothing of it over
		if t := e.Info.TypeOf(a); t != nil {
			if _, basic := t.Underlying().(*types.Basic); basic {
				continue
			}
		}
		check(a)
	}
	return found
}

// boxedType: the assignment l = r converts a value of a concrete (non-interface) type into an interface variable;
// returns that concrete type.
func (e *Engine) boxedType(l, r ast.Expr) types.Type {
	if _, isID := ast.Unparen(l).(*ast.Ident); !isID {
		return nil
	}
	lt, rt := e.Info.TypeOf(l), e.Info.TypeOf(r)
	if lt == nil || rt == nil || isNilIdent(e.Info, r) {
		return nil
	}
	if _, ok := lt.Underlying().(*types.Interface); !ok {
		return nil
	}
	if _, ok := rt.Underlying().(*types.Interface); ok {
		return nil
	}
	if b, ok := rt.(*types.Basic); ok && b.Kind() == types.UntypedNil {
		return nil
	}
	if _, isTP := rt.(*types.TypeParam); isTP {
		return nil
	}
	return rt
}

// lenLowerBound: for `x = append(y, a, b)` returns len(y).Lo + #args; for a slice/map literal its length.
func (e *Engine) lenLowerBound(st *State, l, r ast.Expr) *int64 {
	r = ast.Unparen(r)
	if call, ok := r.(*ast.CallExpr); ok && IsBuiltinCall(e.Info, call, "append") && len(call.Args) >= 1 && !call.Ellipsis.IsValid() {
		n := int64(len(call.Args) - 1)
		if k := e.canon(st, call.Args[0]); k.OK {
			if f := st.facts["len("+k.Key+")"]; f != nil && f.Lo != nil {
				n += *f.Lo
			}
		}
		return &n
	}
	// make([]T, n): n elements
	if call, ok := r.(*ast.CallExpr); ok && IsBuiltinCall(e.Info, call, "make") && len(call.Args) >= 2 {
		if _, isSlice := e.Info.TypeOf(call).Underlying().(*types.Slice); isSlice {
			if v, isConst := constInt(e.Info, call.Args[1]); isConst && v >= 0 {
				return &v
			}
			if k := e.canon(st, call.Args[1]); k.OK {
				if f := st.facts[k.Key]; f != nil && f.Lo != nil && *f.Lo >= 0 {
					n := *f.Lo
					return &n
				}
			}
		}
		return nil
	}
	// v := s[k:] has len(s) - k elements
	if sl, ok := r.(*ast.SliceExpr); ok && sl.High == nil && sl.Max == nil {
		k := int64(0)
		if sl.Low != nil {
			v, isConst := constInt(e.Info, sl.Low)
			if !isConst || v < 0 {
				return nil
			}
			k = v
		}
		if bk := e.canon(st, sl.X); bk.OK {
			if f := st.facts["len("+bk.Key+")"]; f != nil && f.Lo != nil && *f.Lo-k >= 0 {
				n := *f.Lo - k
				return &n
			}
		}
		return nil
	}
	if cl, ok := r.(*ast.CompositeLit); ok {
		if _, isSlice := e.Info.TypeOf(cl).Underlying().(*types.Slice); isSlice {
			n := int64(len(cl.Elts))
			for _, el := range cl.Elts {
				if _, isKV := el.(*ast.KeyValueExpr); isKV {
					return nil
				}
			}
			return &n
		}
	}
	return nil
}

// tableSplit: `v, ok := table[k]` for a constant table (a package-level map that is never written): one state per
// entry (k == key, v == value, ok) and one for the miss (k differs from every key, !ok), so that what follows knows
// which row it is looking at - a dispatch through a table reads like the switch it replaces.
func (e *Engine) tableSplit(st *State, lhs []ast.Expr, ix *ast.IndexExpr, entries []*ast.KeyValueExpr) []*State {
	if constOf(e.Info, ix.Index) != nil {
		return []*State{st}
	}
	if k := e.canon(st, ix.Index); !k.OK {
		return []*State{st}
	}
	okID, _ := ast.Unparen(lhs[1]).(*ast.Ident)
	vID, _ := ast.Unparen(lhs[0]).(*ast.Ident)
	setOK := func(s *State, val bool) *State {
		if s == nil || okID == nil || okID.Name == "_" {
			return s
		}
		return e.assumeAtom(s, okID, val)
	}
	var out []*State
	miss := st
	for _, kv := range entries {
		hit := e.assumeCompare(st, ix.Index, token.EQL, kv.Key, true)
		hit = setOK(hit, true)
		if hit != nil && vID != nil && vID.Name != "_" {
			if vk := e.canon(hit, vID); vk.OK && e.tracked(vk) {
				hit = e.rowFacts(hit, vk, kv.Value, e.Info.TypeOf(ix))
			}
		}
		if hit != nil {
			out = append(out, hit)
		}
		if miss != nil {
			miss = e.assumeCompare(miss, ix.Index, token.EQL, kv.Key, false)
		}
	}
	if miss = setOK(miss, false); miss != nil {
		if vID != nil && vID.Name != "_" {
			if vk := e.canon(miss, vID); vk.OK && e.tracked(vk) {
				if n := e.rowFacts(miss, vk, nil, e.Info.TypeOf(ix)); n != nil {
					miss = n
				}
			}
		}
		out = append(out, miss)
	}
	return out
}

// tableLookup splits a state on the row of a constant table that T[k] names: in each part k equals the row's key and
// T[k] (and, for a row that is a struct literal, its fields) equals the row's constants; in the last part k equals no
// key and T[k] is the zero value.
func (e *Engine) tableLookup(st *State, ix *ast.IndexExpr, entries []*ast.KeyValueExpr) []*State {
	if k := e.canon(st, ix.Index); !k.OK {
		return []*State{st}
	}
	self := e.canon(st, ix)
	if !self.OK {
		return []*State{st}
	}
	var out []*State
	miss := st
	for _, kv := range entries {
		hit := e.assumeCompare(st, ix.Index, token.EQL, kv.Key, true)
		if hit != nil {
			hit = e.rowFacts(hit, self, kv.Value, e.Info.TypeOf(ix))
		}
		if hit != nil {
			out = append(out, hit)
		}
		if miss != nil {
			miss = e.assumeCompare(miss, ix.Index, token.EQL, kv.Key, false)
		}
	}
	if miss != nil {
		if miss = e.rowFacts(miss, self, nil, e.Info.TypeOf(ix)); miss != nil {
			out = append(out, miss)
		}
	}
	return out
}

// zeroConst is the constant key of the zero value of a basic type ("" if the type has none).
func zeroConst(t types.Type) string {
	b, ok := t.Underlying().(*types.Basic)
	if !ok {
		return ""
	}
	switch {
	case b.Info()&types.IsString != 0:
		return `""`
	case b.Info()&types.IsBoolean != 0:
		return "false"
	case b.Info()&types.IsNumeric != 0:
		return "0"
	}
	return ""
}

// rowFacts records at the path k what a table row's value v says (v == nil: the zero value of t).
func (e *Engine) rowFacts(st *State, k keyInfo, v ast.Expr, t types.Type) *State {
	set := func(st *State, k keyInfo, eq string) *State {
		if st == nil || eq == "" {
			return st
		}
		return e.update(st, k, func(f *Fact) {
			if f.HasEq && f.Eq != eq {
				f.Ne = addSorted(f.Ne, eq)
			}
			f.HasEq, f.Eq = true, eq
		})
	}
	if st == nil || t == nil {
		return st
	}
	if tup, isTuple := t.(*types.Tuple); isTuple && tup.Len() > 0 {
		t = tup.At(0).Type() // v, ok := T[k]
	}
	if stt, isStruct := t.Underlying().(*types.Struct); isStruct {
		given := map[*types.Var]ast.Expr{}
		if v != nil {
			lit := litOf(v)
			if lit == nil {
				return st
			}
			for i, el := range lit.Elts {
				if kv, isKV := el.(*ast.KeyValueExpr); isKV {
					if fld, _ := objOf(e.Info, kv.Key).(*types.Var); fld != nil {
						given[fld] = kv.Value
					}
				} else if i < stt.NumFields() {
					given[stt.Field(i)] = el
				}
			}
		}
		for i := 0; i < stt.NumFields() && st != nil; i++ {
			fld := stt.Field(i)
			fk := k.merge(keyInfo{Fields: []*types.Var{fld}})
			fk.Key, fk.OK, fk.Value, fk.Heap = k.Key+"."+fldName(fld), true, false, k.Heap
			if gv := given[fld]; gv != nil {
				if c := constOf(e.Info, gv); c != nil {
					st = set(st, fk, constKey(c))
				}
			} else {
				st = set(st, fk, zeroConst(fld.Type()))
			}
		}
		return st
	}
	if v == nil {
		return set(st, k, zeroConst(t))
	}
	if c := constOf(e.Info, v); c != nil {
		return set(st, k, constKey(c))
	}
	return st
}

// commaOK records the meaning of `v, ok := x.(T)`, `v, ok := m[k]`.
func (e *Engine) commaOK(st *State, lhs []ast.Expr, r ast.Expr) *State {
	okK := e.canon(st, lhs[1])
	if !okK.OK || !e.tracked(okK) {
		return st
	}
	r = ast.Unparen(r)
	var tag string
	var dep keyInfo
	switch x := r.(type) {
	case *ast.TypeAssertExpr:
		dep = e.canon(st, x.X)
		if !dep.OK || x.Type == nil {
			return st
		}
		tag = "assert|" + TypeStr(e.Info.TypeOf(x.Type))
	case *ast.IndexExpr:
		if _, isMap := e.Info.TypeOf(x.X).Underlying().(*types.Map); !isMap {
			return st
		}
		m, k := e.canon(st, x.X), e.canon(st, x.Index)
		if !m.OK || !k.OK {
			return st
		}
		dep = m.merge(k)
		dep.OK = true
		tag = "has|" + m.Key + "|" + k.Key
	default:
		return st
	}
	if !e.tracked(dep) {
		return st
	}
	ak := okK.merge(dep)
	ak.Key = "alias:" + okK.Key
	ak.OK = true
	d := dep
	if n := e.update(st, ak, func(f *Fact) { f.Tags = []string{tag}; f.Alias = &d }); n != nil {
		return n
	}
	return st
}

// ---------- conditions

func (e *Engine) cond(x ast.Expr, in []*State) (t, f []*State) {
	if len(in) == 0 {
		return nil, nil
	}
	x = ast.Unparen(x)
	switch v := x.(type) {
	case *ast.UnaryExpr:
		if v.Op == token.NOT {
			t, f = e.cond(v.X, in)
			return f, t
		}
	case *ast.BinaryExpr:
		switch v.Op {
		case token.LAND:
			t1, f1 := e.cond(v.X, in)
			t2, f2 := e.cond(v.Y, t1)
			return t2, append(f1, f2...)
		case token.LOR:
			t1, f1 := e.cond(v.X, in)
			t2, f2 := e.cond(v.Y, f1)
			return append(t1, t2...), f2
		}
	}
	// x OP max(a, b) / min(a, b): the comparison with each argument, combined
	if rw := e.expandMinMax(x); rw != nil {
		return e.cond(rw, in)
	}
	in = e.expr(x, in)
	for _, st := range in {
		if n := e.assumeAtom(st, x, true); n != nil {
			t = append(t, n)
		}
		if n := e.assumeAtom(st, x, false); n != nil {
			f = append(f, n)
		}
	}
	return compact(t), compact(f)
}

// expandMinMax rewrites a comparison against the builtin max/min of two values into the comparisons it stands for:
// x < max(a,b) is x<a || x<b, x >= max(a,b) is x>=a && x>=b, and dually for min.
func (e *Engine) expandMinMax(x ast.Expr) ast.Expr {
	b, ok := ast.Unparen(x).(*ast.BinaryExpr)
	if !ok {
		return nil
	}
	switch b.Op {
	case token.LSS, token.LEQ, token.GTR, token.GEQ:
	default:
		return nil
	}
	which := func(y ast.Expr) (string, *ast.CallExpr) {
		call, ok := ast.Unparen(y).(*ast.CallExpr)
		if !ok || len(call.Args) != 2 {
			return "", nil
		}
		if IsBuiltinCall(e.Info, call, "max") {
			return "max", call
		}
		if IsBuiltinCall(e.Info, call, "min") {
			return "min", call
		}
		return "", nil
	}
	op, lhs := b.Op, b.X
	name, call := which(b.Y)
	if call == nil {
		// max(a,b) OP x: turn around
		if name, call = which(b.X); call == nil {
			return nil
		}
		lhs, op = b.Y, flipOp(b.Op)
	}
	mk := func(y ast.Expr) ast.Expr {
		n := &ast.BinaryExpr{X: lhs, OpPos: b.OpPos, Op: op, Y: y}
		if tv, ok := e.Info.Types[b]; ok {
			e.Info.Types[n] = types.TypeAndValue{Type: tv.Type}
		}
		return n
	}
	// x < max: some argument is greater; x > max / x >= max: all are; min is the dual
	any := (name == "max" && (op == token.LSS || op == token.LEQ)) || (name == "min" && (op == token.GTR || op == token.GEQ))
	join := token.LAND
	if any {
		join = token.LOR
	}
	n := &ast.BinaryExpr{X: mk(call.Args[0]), OpPos: b.OpPos, Op: join, Y: mk(call.Args[1])}
	if tv, ok := e.Info.Types[b]; ok {
		e.Info.Types[n] = types.TypeAndValue{Type: tv.Type}
	}
	return n
}

// Assume returns st strengthened by "x evaluates to val", or nil if that is impossible.
func (e *Engine) assumeAtom(st *State, x ast.Expr, val bool) *State {
	x = ast.Unparen(x)
	if tv, ok := e.Info.Types[x]; ok && tv.Value != nil && tv.Value.Kind() == constant.Bool {
		if constant.BoolVal(tv.Value) == val {
			return st
		}
		return nil
	}
	if b, ok := x.(*ast.BinaryExpr); ok {
		switch b.Op {
		case token.EQL, token.NEQ, token.LSS, token.LEQ, token.GTR, token.GEQ:
			return e.assumeCompare(st, b.X, b.Op, b.Y, val)
		}
	}
	k := e.canon(st, x)
	if !k.OK {
		return st
	}
	want := "false"
	if val {
		want = "true"
	}
	n := e.update(st, k, func(f *Fact) {
		if f.HasEq && f.Eq != want {
			f.Ne = addSorted(f.Ne, want)
		}
		f.HasEq, f.Eq = true, want
	})
	if n == nil {
		return nil
	}
	// alias of a comma-ok result
	if a := n.facts["alias:"+k.Key]; a != nil && len(a.Tags) == 1 && a.Alias != nil {
		parts := strings.Split(a.Tags[0], "|")
		dep := *a.Alias
		switch parts[0] {
		case "assert":
			n2 := e.assumeTypeKeyStr(n, dep, []string{parts[1]}, false, val)
			if n2 == nil {
				return nil
			}
			n = n2
		case "has":
			hk := dep
			hk.Key = "has(" + parts[1] + "," + parts[2] + ")"
			hk.Heap = true
			if n2 := e.update(n, hk, func(f *Fact) {
				if f.HasEq && f.Eq != want {
					f.Ne = addSorted(f.Ne, want)
				}
				f.HasEq, f.Eq = true, want
			}); n2 != nil {
				n = n2
			} else {
				return nil
			}
		}
	}
	return n
}

func negateOp(op token.Token) token.Token {
	switch op {
	case token.EQL:
		return token.NEQ
	case token.NEQ:
		return token.EQL
	case token.LSS:
		return token.GEQ
	case token.LEQ:
		return token.GTR
	case token.GTR:
		return token.LEQ
	case token.GEQ:
		return token.LSS
	}
	return op
}

func flipOp(op token.Token) token.Token {
	switch op {
	case token.LSS:
		return token.GTR
	case token.LEQ:
		return token.GEQ
	case token.GTR:
		return token.LSS
	case token.GEQ:
		return token.LEQ
	}
	return op
}

func (e *Engine) assumeCompare(st *State, x ast.Expr, op token.Token, y ast.Expr, val bool) *State {
	if !val {
		op = negateOp(op)
	}
	cx, cy := constOf(e.Info, x), constOf(e.Info, y)
	// a parameter of a helper interpreted in place that was passed a constant (accept('=')) is that constant
	if cx == nil {
		if rx := e.ResolveExpr(x); rx != x && constOf(e.Info, rx) != nil {
			x, cx = rx, constOf(e.Info, rx)
		}
	}
	if cy == nil {
		if ry := e.ResolveExpr(y); ry != y && constOf(e.Info, ry) != nil {
			y, cy = ry, constOf(e.Info, ry)
		}
	}
	if cx != nil && cy != nil {
		return st // whole-expression constants are handled by the caller
	}
	if cx != nil || (isNilIdent(e.Info, x) && !isNilIdent(e.Info, y)) {
		x, y, cx, cy = y, x, cy, cx
		op = flipOp(op)
	}
	kx := e.canon(st, x)
	if !kx.OK {
		return st
	}
	if isNilIdent(e.Info, y) {
		switch op {
		case token.EQL:
			return e.update(st, kx, func(f *Fact) {
				if f.Nil == 2 {
					f.Nil = -1
				} else {
					f.Nil = 1
				}
			}).dropIfBad(kx.Key)
		case token.NEQ:
			return e.update(st, kx, func(f *Fact) {
				if f.Nil == 1 {
					f.Nil = -1
				} else {
					f.Nil = 2
				}
			}).dropIfBad(kx.Key)
		}
		return st
	}
	if cy != nil {
		c := constKey(cy)
		n, isInt := int64(0), false
		if cy.Kind() == constant.Int {
			n, isInt = constant.Int64Val(cy)
		}
		switch op {
		case token.EQL:
			return e.update(st, kx, func(f *Fact) {
				if f.HasEq && f.Eq != c {
					f.Ne = addSorted(f.Ne, c) // contradiction surfaces in normalize
				}
				f.HasEq, f.Eq = true, c
			})
		case token.NEQ:
			return e.update(st, kx, func(f *Fact) { f.Ne = addSorted(f.Ne, c) })
		}
		if !isInt {
			return st
		}
		switch op {
		case token.LSS:
			n--
			fallthrough
		case token.LEQ:
			return e.update(st, kx, func(f *Fact) {
				if f.Hi == nil || *f.Hi > n {
					v := n
					f.Hi = &v
				}
			})
		case token.GTR:
			n++
			fallthrough
		case token.GEQ:
			return e.update(st, kx, func(f *Fact) {
				if f.Lo == nil || *f.Lo < n {
					v := n
					f.Lo = &v
				}
			})
		}
		return st
	}
	ky := e.canon(st, y)
	if !ky.OK {
		return st
	}
	// both sides are paths: relational atom. If both have known equal constants, decide.
	key, neg := relKey(kx.Key, op, ky.Key)
	if key == "" {
		return st
	}
	rk := kx.merge(ky)
	rk.Key, rk.OK = key, true
	want := "true"
	if neg {
		want = "false"
	}
	n := e.update(st, rk, func(f *Fact) {
		if f.HasEq && f.Eq != want {
			f.Ne = addSorted(f.Ne, want)
		}
		f.HasEq, f.Eq = true, want
	})
	if n == nil {
		return nil
	}
	// the dual strict/non-strict form: a < b true implies (b <= a) false, etc.
	switch op {
	case token.LSS, token.GTR, token.LEQ, token.GEQ:
		dop := negateOp(op)
		dkey, _ := relKey(kx.Key, dop, ky.Key)
		dk := rk
		dk.Key = dkey
		if n2 := e.update(n, dk, func(f *Fact) {
			if f.HasEq && f.Eq != "false" {
				f.Ne = addSorted(f.Ne, "false")
			}
			f.HasEq, f.Eq = true, "false"
		}); n2 != nil {
			n = n2
		} else {
			return nil
		}
	case token.EQL:
		// equal paths share constant facts
		fx, fy := n.facts[kx.Key], n.facts[ky.Key]
		if fx != nil && fx.HasEq && (fy == nil || !fy.HasEq) {
			if n2 := e.update(n, ky, func(f *Fact) { f.HasEq, f.Eq = true, fx.Eq }); n2 != nil {
				n = n2
			} else {
				return nil
			}
		} else if fy != nil && fy.HasEq && (fx == nil || !fx.HasEq) {
			if n2 := e.update(n, kx, func(f *Fact) { f.HasEq, f.Eq = true, fy.Eq }); n2 != nil {
				n = n2
			} else {
				return nil
			}
		}
	}
	return n
}

// dropIfBad turns the sentinel Nil=-1 (contradiction) into an infeasible state.
func (s *State) dropIfBad(key string) *State {
	if s == nil {
		return nil
	}
	if f := s.facts[key]; f != nil && f.Nil == -1 {
		return nil
	}
	return s
}

func typeStrs(ts []types.Type) (out []string, hasNil bool) {
	for _, t := range ts {
		if t == nil {
			hasNil = true
			continue
		}
		out = addSorted(out, TypeStr(t))
	}
	return
}

func (e *Engine) assumeType(st *State, tag ast.Expr, ts []types.Type, in bool) *State {
	k := e.canon(st, tag)
	if !k.OK {
		return st
	}
	return e.assumeTypeKey(st, k, ts, in)
}

func (e *Engine) assumeTypeKey(st *State, k keyInfo, ts []types.Type, in bool) *State {
	names, hasNil := typeStrs(ts)
	return e.assumeTypeKeyStr(st, k, names, hasNil, in)
}

// assumeTypeKeyStr: in=true: dynamic type ∈ names (or nil if hasNil); in=false: ∉ names (and non-nil if hasNil).
func (e *Engine) assumeTypeKeyStr(st *State, k keyInfo, names []string, hasNil bool, in bool) *State {
	if in {
		if hasNil && len(names) == 0 {
			return e.update(st, k, func(f *Fact) {
				if f.Nil == 2 {
					f.Nil = -1
				} else {
					f.Nil = 1
				}
			}).dropIfBad(k.Key)
		}
		if hasNil {
			return st // mixed `case nil, T`: nothing precise
		}
		return e.update(st, k, func(f *Fact) {
			if f.TyIn == nil {
				f.TyIn = append([]string(nil), names...)
			} else {
				f.TyIn = intersectStr(f.TyIn, names)
				if len(f.TyIn) == 0 {
					f.TyIn = []string{"⊥"}
					f.TyOut = addSorted(f.TyOut, "⊥")
				}
			}
			if f.Nil == 1 {
				f.Nil = -1
			}
		}).dropIfBad(k.Key)
	}
	return e.update(st, k, func(f *Fact) {
		for _, n := range names {
			f.TyOut = addSorted(f.TyOut, n)
		}
		if hasNil {
			if f.Nil == 1 {
				f.Nil = -1
			} else {
				f.Nil = 2
			}
		}
	}).dropIfBad(k.Key)
}

// ---------- queries for clients

// IsTrue reports whether the boolean expression x is known true (val=true) or false in st.
func (e *Engine) Known(st *State, x ast.Expr, val bool) bool {
	// x is known to be val iff assuming the opposite is contradictory.
	return e.assumeAtomDeep(st, x, !val) == nil
}

// assumeAtomDeep assumes a possibly compound condition without running hooks; returns nil if infeasible in all branches.
func (e *Engine) assumeAtomDeep(st *State, x ast.Expr, val bool) *State {
	x = ast.Unparen(x)
	switch v := x.(type) {
	case *ast.UnaryExpr:
		if v.Op == token.NOT {
			return e.assumeAtomDeep(st, v.X, !val)
		}
	case *ast.BinaryExpr:
		if v.Op == token.LAND || v.Op == token.LOR {
			conj := (v.Op == token.LAND) == val
			if conj { // both must hold
				n := e.assumeAtomDeep(st, v.X, val)
				if n == nil {
					return nil
				}
				return e.assumeAtomDeep(n, v.Y, val)
			}
			if n := e.assumeAtomDeep(st, v.X, val); n != nil {
				return n
			}
			return e.assumeAtomDeep(st, v.Y, val)
		}
	}
	return e.assumeAtom(st, x, val)
}

// NonNil reports whether x is known non-nil.
func (e *Engine) NonNil(st *State, x ast.Expr) bool {
	k := e.canon(st, x)
	if !k.OK {
		return false
	}
	f := st.facts[k.Key]
	return f != nil && f.Nil == 2
}

// IsNil reports whether x is known nil.
func (e *Engine) IsNil(st *State, x ast.Expr) bool {
	k := e.canon(st, x)
	if !k.OK {
		return false
	}
	f := st.facts[k.Key]
	return f != nil && f.Nil == 1
}

// LenAtLeast reports whether len(x) >= n is known.
func (e *Engine) LenAtLeast(st *State, x ast.Expr, n int64) bool {
	k := e.canon(st, x)
	if !k.OK {
		return false
	}
	f := st.facts["len("+k.Key+")"]
	return f != nil && f.Lo != nil && *f.Lo >= n
}

// FactOf returns the fact about x, or nil.
func (e *Engine) FactOf(st *State, x ast.Expr) *Fact {
	k := e.canon(st, x)
	if !k.OK {
		return nil
	}
	return st.facts[k.Key]
}

// SetTag adds a client tag to the fact of x.
func (e *Engine) SetTag(st *State, x ast.Expr, tag string) *State {
	k := e.canon(st, x)
	if !k.OK {
		return st
	}
	if n := e.update(st, k, func(f *Fact) { f.Tags = addSorted(f.Tags, tag) }); n != nil {
		return n
	}
	return st
}

// SetNonNil marks x as non-nil.
func (e *Engine) SetNonNil(st *State, x ast.Expr) *State {
	k := e.canon(st, x)
	if !k.OK {
		return st
	}
	if n := e.update(st, k, func(f *Fact) { f.Nil = 2 }); n != nil {
		return n
	}
	return st
}

// HasTag reports whether the fact of x carries tag.
func (e *Engine) HasTag(st *State, x ast.Expr, tag string) bool {
	f := e.FactOf(st, x)
	return f != nil && hasStr(f.Tags, tag)
}

// sortedKeys is a debugging helper.
func sortedKeys(m map[string]*Fact) []string {
	var ks []string
	for k := range m {
		ks = append(ks, k)
	}
	sort.Strings(ks)
	return ks
}

// DropTags removes every tag with the given prefix from all facts (e.g. at a loop head: "created on this
// path" must not survive into the next iteration).
func (e *Engine) DropTags(st *State, prefix string) *State {
	var n *State
	for k, f := range st.facts {
		keep := f.Tags[:0:0]
		for _, t := range f.Tags {
			if !strings.HasPrefix(t, prefix) {
				keep = append(keep, t)
			}
		}
		if len(keep) == len(f.Tags) {
			continue
		}
		if n == nil {
			n = st.clone()
		}
		g := f.clone()
		g.Tags = keep
		if g.empty() {
			delete(n.facts, k)
		} else {
			n.facts[k] = g
		}
	}
	if n == nil {
		return st
	}
	return n
}

// SetNil / SetNilness helpers for clients.
func (e *Engine) SetNil(st *State, x ast.Expr) *State {
	k := e.canon(st, x)
	if !k.OK {
		return st
	}
	return e.update(st, k, func(f *Fact) {
		if f.Nil == 2 {
			f.Nil = -1
		} else {
			f.Nil = 1
		}
	})
}

// SetNonNilStrict is SetNonNil that reports contradiction as nil.
func (e *Engine) SetNonNilStrict(st *State, x ast.Expr) *State {
	k := e.canon(st, x)
	if !k.OK {
		return st
	}
	return e.update(st, k, func(f *Fact) {
		if f.Nil == 1 {
			f.Nil = -1
		} else {
			f.Nil = 2
		}
	})
}

// extMentionsScope: the key embeds a local variable key "name#offset" whose declaration offset lies in [lo, hi).
func extMentionsScope(k string, lo, hi int) bool {
	for i := 0; i < len(k); i++ {
		if k[i] != '#' {
			continue
		}
		j := i + 1
		n := 0
		for j < len(k) && k[j] >= '0' && k[j] <= '9' {
			n = n*10 + int(k[j]-'0')
			j++
		}
		if j > i+1 && n >= lo && n < hi {
			return true
		}
	}
	return false
}

// AssumeBool strengthens st by "x == val" (nil if impossible).
func (e *Engine) AssumeBool(st *State, x ast.Expr, val bool) *State { return e.assumeAtom(st, x, val) }
