package pc

import (
	"fmt"
	"go/constant"
	"go/token"
	"go/types"
	"sort"
	"strings"

	"golang.org/x/tools/go/ssa"
	"golang.org/x/tools/go/ssa/ssautil"
)

// ---- C14: effect analysis over the SSA form of the two library packages.
//
// Every function of pql and parser is analysed (a superset of what is reachable from the public entry
// points, so no call-graph precision is needed for soundness).

type memClass uint8

const (
	clsLocal  memClass = 1 << iota // allocated inside the call tree
	clsGlobal                      // package-level variable (or reachable from one)
	clsExtern                      // supplied by a caller of the public API (or unknown)
)

func (c memClass) String() string {
	var parts []string
	if c&clsLocal != 0 {
		parts = append(parts, "call-local")
	}
	if c&clsGlobal != 0 {
		parts = append(parts, "package-level")
	}
	if c&clsExtern != 0 {
		parts = append(parts, "caller-owned/unknown")
	}
	if len(parts) == 0 {
		return "none"
	}
	return strings.Join(parts, "+")
}

type effects struct {
	p         *Program
	prog      *ssa.Program
	fns       []*ssa.Function
	inLib     map[*ssa.Function]bool
	exposed   map[*ssa.Function]bool // parameters may come from outside the module
	cls       map[ssa.Value]memClass // class of the memory a pointer-like value refers to
	contents  map[ssa.Value]memClass // per root: class of pointer-like values stored into it
	callers   map[*ssa.Function][]ssa.CallInstruction
	fieldFns  map[*types.Var][]*ssa.Function // functions stored into a func-typed struct field
	closures  map[*ssa.Function][]*ssa.MakeClosure
	boundRecv map[*ssa.Function][]ssa.Value // method -> receivers its method values were bound to
	changed   bool
}

func libPath(path string) bool { return path == PathPQL || path == PathParser }

func fnPkgPath(fn *ssa.Function) string {
	for fn.Parent() != nil {
		fn = fn.Parent()
	}
	if o := fn.Origin(); o != nil {
		fn = o
	}
	if fn.Pkg != nil {
		return fn.Pkg.Pkg.Path()
	}
	if fn.Object() != nil && fn.Object().Pkg() != nil {
		return fn.Object().Pkg().Path()
	}
	return ""
}

func (p *Program) newEffects() *effects {
	sp := p.SSA()
	ef := &effects{p: p, prog: sp.Prog, inLib: map[*ssa.Function]bool{}, exposed: map[*ssa.Function]bool{},
		cls: map[ssa.Value]memClass{}, contents: map[ssa.Value]memClass{},
		callers: map[*ssa.Function][]ssa.CallInstruction{}, closures: map[*ssa.Function][]*ssa.MakeClosure{}, fieldFns: map[*types.Var][]*ssa.Function{}}
	for fn := range ssautil.AllFunctions(sp.Prog) {
		if fn.Blocks == nil || !libPath(fnPkgPath(fn)) {
			continue
		}
		if fn.Synthetic != "" && !strings.HasPrefix(fn.Synthetic, "instance of") && fn.Synthetic != "package initializer" {
			continue // wrappers, thunks
		}
		if fn.TypeParams().Len() > 0 && len(fn.TypeArgs()) == 0 && !(fn.Object() != nil && fn.Object().Exported()) {
			continue // the uninstantiated body of an unexported generic function: its instances are analysed with their callers
		}
		ef.fns = append(ef.fns, fn)
		ef.inLib[fn] = true
	}
	sort.Slice(ef.fns, func(i, j int) bool { return ef.fns[i].String() < ef.fns[j].String() })
	// exposure: exported functions / methods (callable from outside), and functions used as values.
	for _, fn := range ef.fns {
		if fn.Parent() == nil {
			if obj := fn.Object(); obj != nil && obj.Exported() {
				ef.exposed[fn] = true
			}
			if o := fn.Origin(); o != nil && o.Object() != nil && o.Object().Exported() {
				ef.exposed[fn] = true
			}
			// methods reachable through interfaces (Span, Error, Unwrap, String, ...)
			if fn.Signature.Recv() != nil && fn.Object() != nil {
				ef.exposed[fn] = ef.exposed[fn] || fn.Object().Exported()
			}
		}
	}
	for _, fn := range ef.fns {
		for _, b := range fn.Blocks {
			for _, ins := range b.Instrs {
				switch x := ins.(type) {
				case ssa.CallInstruction:
					if callee := x.Common().StaticCallee(); callee != nil {
						ef.callers[callee] = append(ef.callers[callee], x)
					}
				}
				if mc, ok := ins.(*ssa.MakeClosure); ok {
					ef.closures[mc.Fn.(*ssa.Function)] = append(ef.closures[mc.Fn.(*ssa.Function)], mc)
					// a method value (x.visit): the receiver of the method is what the closure was bound to
					if w := mc.Fn.(*ssa.Function); strings.HasPrefix(w.Synthetic, "bound method wrapper") && len(mc.Bindings) == 1 {
						for _, wb := range w.Blocks {
							for _, wi := range wb.Instrs {
								if ci, isCall := wi.(ssa.CallInstruction); isCall {
									if m := ci.Common().StaticCallee(); m != nil {
										if ef.boundRecv == nil {
											ef.boundRecv = map[*ssa.Function][]ssa.Value{}
										}
										ef.boundRecv[m] = append(ef.boundRecv[m], mc.Bindings[0])
									}
								}
							}
						}
					}
				}
				// a function used as a value (not as the callee, not in MakeClosure) escapes
				var ops []*ssa.Value
				for _, op := range ins.Operands(ops) {
					if f, ok := (*op).(*ssa.Function); ok && ef.inLib[f] {
						if ci, isCall := ins.(ssa.CallInstruction); isCall && ci.Common().Value == *op {
							continue
						}
						if _, isMC := ins.(*ssa.MakeClosure); isMC {
							continue
						}
						// merged into a local function variable that is only ever called
						if phi, isPhi := ins.(*ssa.Phi); isPhi && onlyCalled(phi, map[ssa.Value]bool{}) {
							continue
						}
						// stored into a struct field: callable only through loads of that field
						if st, isStore := ins.(*ssa.Store); isStore && st.Val == *op {
							if fa, ok := st.Addr.(*ssa.FieldAddr); ok {
								ef.fieldFns[fieldVarOf(fa)] = append(ef.fieldFns[fieldVarOf(fa)], f)
								continue
							}
						}
						ef.exposed[f] = true
					}
				}
			}
		}
	}
	// calls through a func-typed field reach every function stored into that field
	for _, fn := range ef.fns {
		for _, b := range fn.Blocks {
			for _, ins := range b.Instrs {
				ci, ok := ins.(ssa.CallInstruction)
				if !ok || ci.Common().IsInvoke() || ci.Common().StaticCallee() != nil {
					continue
				}
				// a local function variable (phi of named functions)
				if phi, isPhi := ci.Common().Value.(*ssa.Phi); isPhi {
					for _, t := range phiFuncs(phi, map[ssa.Value]bool{}) {
						if ef.inLib[t] {
							ef.callers[t] = append(ef.callers[t], ci)
						}
					}
					continue
				}
				if fv := fieldLoadVar(ci.Common().Value); fv != nil {
					for _, target := range ef.fieldFns[fv] {
						ef.callers[target] = append(ef.callers[target], ci)
					}
				}
			}
		}
	}
	return ef
}

// onlyCalled: every use of the phi is as the callee of a call (or another such phi).
func onlyCalled(phi *ssa.Phi, seen map[ssa.Value]bool) bool {
	if seen[phi] {
		return true
	}
	seen[phi] = true
	for _, ref := range *phi.Referrers() {
		switch r := ref.(type) {
		case ssa.CallInstruction:
			if r.Common().Value != ssa.Value(phi) {
				return false
			}
		case *ssa.Phi:
			if !onlyCalled(r, seen) {
				return false
			}
		case *ssa.DebugRef:
		default:
			return false
		}
	}
	return true
}

// phiFuncs: the named functions a phi of function values can be.
func phiFuncs(phi *ssa.Phi, seen map[ssa.Value]bool) []*ssa.Function {
	if seen[phi] {
		return nil
	}
	seen[phi] = true
	var out []*ssa.Function
	for _, e := range phi.Edges {
		switch v := e.(type) {
		case *ssa.Function:
			out = append(out, v)
		case *ssa.Phi:
			out = append(out, phiFuncs(v, seen)...)
		}
	}
	return out
}

func fieldVarOf(fa *ssa.FieldAddr) *types.Var {
	pt := fa.X.Type().Underlying().(*types.Pointer)
	st := pt.Elem().Underlying().(*types.Struct)
	return st.Field(fa.Field)
}

// fieldLoadVar: v is `*(&x.F)` or `x.F`: returns F.
func fieldLoadVar(v ssa.Value) *types.Var {
	switch x := v.(type) {
	case *ssa.UnOp:
		if fa, ok := x.X.(*ssa.FieldAddr); ok && x.Op == token.MUL {
			return fieldVarOf(fa)
		}
	case *ssa.Field:
		st := x.X.Type().Underlying().(*types.Struct)
		return st.Field(x.Field)
	}
	return nil
}

func pointerLike(t types.Type) bool {
	switch t.Underlying().(type) {
	case *types.Pointer, *types.Slice, *types.Map, *types.Interface, *types.Signature, *types.Chan:
		return true
	case *types.Struct, *types.Array:
		return true // may contain pointers
	case *types.Tuple:
		return true
	}
	return false
}

// freshStdlib: non-module functions whose pointer-like result is freshly allocated.
func freshResult(callee *ssa.Function) bool {
	if callee == nil {
		return false
	}
	switch callee.String() {
	case "errors.New", "fmt.Errorf", "errors.Join", "fmt.Sprintf", "strings.ReplaceAll", "strings.Join", "strings.TrimLeft", "strconv.FormatUint":
		return true
	}
	name := callee.String()
	return strings.HasPrefix(name, "golang.org/x/exp/maps.Keys") || strings.HasPrefix(name, "slices.Clone") || strings.HasPrefix(name, "maps.Keys") || strings.HasPrefix(name, "maps.Clone")
}

// appendLike: standard-library functions that append scalars to the byte slice they are given and return it
// (strconv.AppendInt, utf8.AppendRune, fmt.Appendf, ...): the result is the argument's array or a fresh one, and
// nothing but bytes is stored.
func appendLike(callee *ssa.Function) bool {
	name := callee.String()
	for _, p := range []string{"strconv.Append", "unicode/utf8.AppendRune", "fmt.Append", "slices.Grow", "slices.Clip"} {
		if strings.HasPrefix(name, p) {
			return true
		}
	}
	return false
}

func (ef *effects) get(v ssa.Value) memClass { return ef.cls[v] }

func (ef *effects) add(v ssa.Value, c memClass) {
	if c == 0 {
		return
	}
	if old := ef.cls[v]; old|c != old {
		ef.cls[v] = old | c
		ef.changed = true
	}
}

func (ef *effects) addContents(root ssa.Value, c memClass) {
	if c == 0 || root == nil {
		return
	}
	if old := ef.contents[root]; old|c != old {
		ef.contents[root] = old | c
		ef.changed = true
	}
}

// roots returns the root objects (allocation sites, parameters, globals, calls) an address/value derives from.
func (ef *effects) roots(v ssa.Value, seen map[ssa.Value]bool, out *[]ssa.Value) {
	if v == nil || seen[v] {
		return
	}
	seen[v] = true
	switch x := v.(type) {
	case *ssa.FieldAddr:
		ef.roots(x.X, seen, out)
	case *ssa.IndexAddr:
		ef.roots(x.X, seen, out)
	case *ssa.Field:
		ef.roots(x.X, seen, out)
	case *ssa.Index:
		ef.roots(x.X, seen, out)
	case *ssa.Slice:
		ef.roots(x.X, seen, out)
	case *ssa.ChangeType:
		ef.roots(x.X, seen, out)
	case *ssa.Convert:
		ef.roots(x.X, seen, out)
	case *ssa.ChangeInterface:
		ef.roots(x.X, seen, out)
	case *ssa.MakeInterface:
		ef.roots(x.X, seen, out)
	case *ssa.TypeAssert:
		ef.roots(x.X, seen, out)
	case *ssa.Extract:
		if _, isCall := x.Tuple.(*ssa.Call); isCall {
			*out = append(*out, x) // classified per result index by transfer
			return
		}
		ef.roots(x.Tuple, seen, out)
	case *ssa.Phi:
		for _, e := range x.Edges {
			ef.roots(e, seen, out)
		}
	case *ssa.UnOp:
		if x.Op == token.MUL {
			// a loaded pointer: its referent is whatever was stored into the container
			*out = append(*out, x)
			return
		}
		ef.roots(x.X, seen, out)
	default:
		*out = append(*out, v)
	}
}

// solve computes classes to a fixpoint.
func (ef *effects) solve() {
	for iter := 0; iter < 50; iter++ {
		ef.changed = false
		for _, fn := range ef.fns {
			for i, par := range fn.Params {
				if !pointerLike(par.Type()) {
					continue
				}
				bound := ef.boundRecv[fn]
				switch {
				case ef.exposed[fn]:
					ef.add(par, clsExtern)
				case len(bound) > 0:
					// used as a method value: the receiver is what each value was bound to, the other arguments
					// are supplied by whoever calls the value
					if i == 0 && fn.Signature.Recv() != nil {
						for _, b := range bound {
							ef.add(par, ef.valueClass(b))
						}
					} else {
						ef.add(par, clsExtern)
					}
				case len(ef.callers[fn]) == 0 && fn.Parent() == nil:
					ef.add(par, clsExtern)
				}
				for _, site := range ef.callers[fn] {
					args := site.Common().Args
					if i < len(args) {
						ef.add(par, ef.valueClass(args[i]))
					}
				}
				if fn.Parent() != nil && len(ef.callers[fn]) == 0 {
					// closure invoked through a function value: unknown arguments
					ef.add(par, clsExtern)
				}
			}
			for i, fv := range fn.FreeVars {
				for _, mc := range ef.closures[fn] {
					if i < len(mc.Bindings) {
						ef.add(fv, ef.valueClass(mc.Bindings[i]))
						// contents flow both ways through the shared cell: approximate by class only
					}
				}
				if len(ef.closures[fn]) == 0 {
					ef.add(fv, clsExtern)
				}
			}
			for _, b := range fn.Blocks {
				for _, ins := range b.Instrs {
					ef.transfer(fn, ins)
				}
			}
		}
		if !ef.changed {
			return
		}
	}
	fatalf("C14 effect analysis did not reach a fixpoint")
}

// valueClass is the class of the memory a value refers to (union over its roots).
func (ef *effects) valueClass(v ssa.Value) memClass {
	if v == nil || !pointerLike(v.Type()) {
		return 0
	}
	var rs []ssa.Value
	ef.roots(v, map[ssa.Value]bool{}, &rs)
	var c memClass
	for _, r := range rs {
		c |= ef.rootClass(r)
	}
	return c
}

func (ef *effects) rootClass(r ssa.Value) memClass {
	switch x := r.(type) {
	case *ssa.Alloc, *ssa.MakeMap, *ssa.MakeSlice, *ssa.MakeChan, *ssa.MakeClosure:
		return clsLocal
	case *ssa.Const:
		return clsLocal // nil / constants: no memory
	case *ssa.Global:
		return clsGlobal
	case *ssa.Function, *ssa.Builtin:
		return clsLocal
	case *ssa.Parameter, *ssa.FreeVar:
		return ef.cls[x]
	case *ssa.UnOp: // load: class computed by transfer (memoised, so cyclic structures terminate)
		return ef.cls[x]
	case *ssa.Call, *ssa.Extract:
		return ef.cls[r]
	case *ssa.Lookup, *ssa.Next, *ssa.Range, *ssa.BinOp:
		return ef.cls[x]
	}
	return ef.cls[r]
}

func (ef *effects) transfer(fn *ssa.Function, ins ssa.Instruction) {
	switch x := ins.(type) {
	case *ssa.Store:
		if pointerLike(x.Val.Type()) {
			var rs []ssa.Value
			ef.roots(x.Addr, map[ssa.Value]bool{}, &rs)
			vc := ef.valueClass(x.Val)
			for _, r := range rs {
				ef.addContents(r, vc)
			}
		}
	case *ssa.MapUpdate:
		var rs []ssa.Value
		ef.roots(x.Map, map[ssa.Value]bool{}, &rs)
		vc := ef.valueClass(x.Value) | ef.valueClass(x.Key)
		for _, r := range rs {
			ef.addContents(r, vc)
		}
	case *ssa.Extract:
		call, ok := x.Tuple.(*ssa.Call)
		if !ok || !pointerLike(x.Type()) {
			return
		}
		callee := call.Common().StaticCallee()
		var targets []*ssa.Function
		if callee != nil && ef.inLib[callee] {
			targets = []*ssa.Function{callee}
		} else if fv := fieldLoadVar(call.Common().Value); fv != nil && callee == nil {
			targets = ef.fieldFns[fv]
		}
		if len(targets) == 0 {
			ef.add(x, ef.cls[call])
			ef.addContents(x, ef.contents[call])
			return
		}
		for _, t := range targets {
			for _, b := range t.Blocks {
				if ret, ok := b.Instrs[len(b.Instrs)-1].(*ssa.Return); ok && x.Index < len(ret.Results) {
					res := ret.Results[x.Index]
					ef.add(x, ef.valueClass(res)|clsLocal)
					var rs []ssa.Value
					ef.roots(res, map[ssa.Value]bool{}, &rs)
					for _, r := range rs {
						ef.addContents(x, ef.contents[r])
					}
				}
			}
		}
	case *ssa.Call:
		if !pointerLike(x.Type()) {
			return
		}
		com := x.Common()
		if b, ok := com.Value.(*ssa.Builtin); ok {
			switch b.Name() {
			case "append":
				ef.add(x, clsLocal|ef.valueClass(com.Args[0]))
				// contents of the result: contents of the old slice plus the appended values
				var c memClass
				for _, a := range com.Args[1:] {
					c |= ef.valueClass(a)
				}
				var rs []ssa.Value
				ef.roots(com.Args[0], map[ssa.Value]bool{}, &rs)
				for _, r := range rs {
					c |= ef.contents[r]
				}
				ef.addContents(x, c)
			default:
				ef.add(x, clsLocal)
			}
			return
		}
		callee := com.StaticCallee()
		var tableTargets []*ssa.Function
		if callee == nil && !com.IsInvoke() {
			if fv := fieldLoadVar(com.Value); fv != nil {
				tableTargets = ef.fieldFns[fv]
			}
		}
		switch {
		case len(tableTargets) > 0:
			var c, cc memClass
			for _, t := range tableTargets {
				for _, b := range t.Blocks {
					if ret, ok := b.Instrs[len(b.Instrs)-1].(*ssa.Return); ok {
						for _, res := range ret.Results {
							c |= ef.valueClass(res)
							var rs []ssa.Value
							ef.roots(res, map[ssa.Value]bool{}, &rs)
							for _, r := range rs {
								cc |= ef.contents[r]
							}
						}
					}
				}
			}
			ef.add(x, c|clsLocal)
			ef.addContents(x, cc)
		case callee != nil && ef.inLib[callee]:
			var c, cc memClass
			for _, b := range callee.Blocks {
				if ret, ok := b.Instrs[len(b.Instrs)-1].(*ssa.Return); ok {
					for _, res := range ret.Results {
						c |= ef.valueClass(res)
						var rs []ssa.Value
						ef.roots(res, map[ssa.Value]bool{}, &rs)
						for _, r := range rs {
							cc |= ef.contents[r]
						}
					}
				}
			}
			ef.add(x, c)
			ef.addContents(x, cc)
		case callee != nil && freshResult(callee):
			ef.add(x, clsLocal)
		case callee != nil && appendLike(callee) && len(com.Args) >= 1:
			// like the builtin append: the first argument's array, or a fresh one
			ef.add(x, clsLocal|ef.valueClass(com.Args[0]))
			var c memClass
			var rs []ssa.Value
			ef.roots(com.Args[0], map[ssa.Value]bool{}, &rs)
			for _, r := range rs {
				c |= ef.contents[r]
			}
			ef.addContents(x, c)
		case callee != nil && callee.Signature.Recv() != nil && strings.HasPrefix(callee.String(), "(*strings.Builder)"):
			ef.add(x, clsLocal)
		default:
			// unknown callee: result may alias any argument, or be anything
			c := clsExtern
			for _, a := range com.Args {
				c |= ef.valueClass(a)
			}
			ef.add(x, c)
			ef.addContents(x, c)
		}
	case *ssa.Lookup:
		if pointerLike(x.Type()) {
			var rs []ssa.Value
			ef.roots(x.X, map[ssa.Value]bool{}, &rs)
			var c memClass
			for _, r := range rs {
				c |= ef.contents[r] | ef.rootClass(r)&(clsExtern|clsGlobal)
			}
			if c == 0 {
				c = clsLocal
			}
			ef.add(x, c)
		}
	case *ssa.Next:
		var rs []ssa.Value
		ef.roots(x.Iter, map[ssa.Value]bool{}, &rs)
		var c memClass
		for _, r := range rs {
			c |= ef.cls[r]
		}
		if c == 0 {
			c = clsLocal
		}
		ef.add(x, c)
	case *ssa.Range:
		ef.add(x, ef.valueClass(x.X))
	case *ssa.BinOp:
		if pointerLike(x.Type()) {
			ef.add(x, clsLocal)
		}
	case *ssa.UnOp:
		if x.Op != token.MUL || !pointerLike(x.Type()) {
			return
		}
		var rs []ssa.Value
		ef.roots(x.X, map[ssa.Value]bool{}, &rs)
		var c memClass
		for _, rr := range rs {
			switch rr.(type) {
			case *ssa.Global:
				c |= clsGlobal
			default:
				c |= ef.contents[rr]
				// anything loaded out of caller-owned or global memory is caller-owned/global too
				c |= ef.rootClass(rr) & (clsExtern | clsGlobal)
			}
		}
		if c == 0 {
			c = clsLocal // nothing pointer-like was ever stored there: zero value
		}
		ef.add(x, c)
	}
}

func (ef *effects) fnName(fn *ssa.Function) string {
	s := fn.String()
	s = strings.ReplaceAll(s, PathParser, "parser")
	s = strings.ReplaceAll(s, PathPQL, "pql")
	return s
}

func ruleC14(p *Program, r *Run) {
	ef := p.newEffects()
	ef.solve()
	pos := func(ins ssa.Instruction) string {
		if ins.Pos().IsValid() {
			return p.Pos(ins.Pos())
		}
		return p.Pos(ins.Parent().Pos())
	}
	// trusted-base assertions
	for _, pkg := range p.Lib() {
		for imp := range pkg.Imports {
			switch imp {
			case "unsafe", "reflect", "os", "time", "math/rand", "math/rand/v2", "crypto/rand", "runtime", "os/exec", "net", "syscall", "C":
				r.Fail("C14/ambient", fmt.Sprintf("%s imports %s", pkg.Types.Name(), imp), "-", "library package imports "+imp+": ambient input / nondeterminism / unchecked memory access becomes possible; the effect analysis does not model it")
			}
		}
		r.Pass("C14/ambient", fmt.Sprintf("%s import set", pkg.Types.Name()), "-", "no unsafe, reflect, os, time, rand, runtime, net import")
	}

	onceT := "sync.Once"
	counter := map[string]int{}
	key := func(fn *ssa.Function, what string) string {
		base := ef.fnName(fn) + " " + what
		counter[base]++
		return fmt.Sprintf("%s #%d", base, counter[base])
	}
	for _, fn := range ef.fns {
		r.Saw(ef.fnName(fn))
		isInit := isPkgInit(fn)
		for _, b := range fn.Blocks {
			for _, ins := range b.Instrs {
				switch x := ins.(type) {
				case *ssa.Go:
					r.Fail("C14/concurrency", key(fn, "go statement"), pos(ins), "goroutine started inside the library: results may depend on scheduling")
				case *ssa.Send, *ssa.Select, *ssa.MakeChan:
					r.Fail("C14/concurrency", key(fn, "channel operation"), pos(ins), "channel operation inside the library")
				case *ssa.Store:
					if isInit {
						continue
					}
					ef.checkWrite(r, fn, ins, x.Addr, "store", key, pos)
				case *ssa.MapUpdate:
					if isInit {
						continue
					}
					ef.checkWrite(r, fn, ins, x.Map, "map update", key, pos)
				case *ssa.Range:
					if _, isMap := x.X.Type().Underlying().(*types.Map); isMap {
						ef.checkMapRange(r, fn, x, key, pos)
					}
				case ssa.CallInstruction:
					ef.checkCall(r, fn, x, key, pos, onceT)
				}
			}
		}
	}
	ef.checkGlobalsTable(r)
	ef.checkSortedKeys(r, pos)
	ef.checkOnce(r, pos)
	ef.checkNilOpts(r)
	ef.checkFormats(r, pos)
	r.Floor("C14/write-local", 100)
	r.Floor("C14/globals", 5)
	r.Floor("C14/call", 150)
	r.Floor("C14/nil-opts", 1)
	r.Floor("C14/map-order", 2)
	r.Floor("C14/format", 30)
}

// checkWrite: the written memory must be call-local (or the Once-protected table inside its initialiser).
func (ef *effects) checkWrite(r *Run, fn *ssa.Function, ins ssa.Instruction, addr ssa.Value, what string, key func(*ssa.Function, string) string, pos func(ssa.Instruction) string) {
	var rs []ssa.Value
	ef.roots(addr, map[ssa.Value]bool{}, &rs)
	var c memClass
	var globals []*ssa.Global
	for _, root := range rs {
		c |= ef.rootClass(root)
		if g, ok := root.(*ssa.Global); ok {
			globals = append(globals, g)
		}
	}
	k := key(fn, what)
	switch {
	case c == clsLocal || c == 0:
		r.Pass("C14/write-local", k, pos(ins), "target memory is allocated inside the call tree")
	case c&clsGlobal != 0 && c&clsExtern == 0 && len(globals) > 0 && ef.insideOnceInit(fn, globals):
		r.PassNT("C14/globals", k, pos(ins), "write to a package-level table inside the closure passed to its own sync.Once.Do")
	case c&clsGlobal != 0:
		r.Fail("C14/globals", k, pos(ins), fmt.Sprintf("%s to package-level state (%s) outside package initialisation and outside a sync.Once: concurrent or repeated calls can influence each other", what, c))
	default:
		r.Fail("C14/write-local", k, pos(ins), fmt.Sprintf("%s to memory that may be owned by the caller (%s): a call could modify its arguments (e.g. the parameter map) or shared trees", what, c))
	}
}

// insideOnceInit: fn is an anonymous function whose only use is as the argument of (*sync.Once).Do called on a
// sync.Once field of the same global(s).
func (ef *effects) insideOnceInit(fn *ssa.Function, globals []*ssa.Global) bool {
	if fn.Parent() == nil {
		return false
	}
	sites := ef.closures[fn]
	direct := false
	// a literal without free variables is used directly as a *ssa.Function operand
	for _, b := range fn.Parent().Blocks {
		for _, ins := range b.Instrs {
			call, ok := ins.(*ssa.Call)
			if !ok {
				continue
			}
			callee := call.Common().StaticCallee()
			if callee == nil || callee.String() != "(*sync.Once).Do" {
				continue
			}
			args := call.Common().Args
			if len(args) != 2 {
				continue
			}
			usesFn := false
			switch a := args[1].(type) {
			case *ssa.Function:
				usesFn = a == fn
			case *ssa.MakeClosure:
				usesFn = a.Fn == fn
			}
			if !usesFn {
				continue
			}
			// receiver: FieldAddr of one of the globals
			if fa, ok := args[0].(*ssa.FieldAddr); ok {
				if g, ok := fa.X.(*ssa.Global); ok {
					for _, gg := range globals {
						if gg == g {
							direct = true
						}
					}
				}
			}
		}
	}
	_ = sites
	return direct
}

// checkOnce: every read of a Once-protected global's fields is dominated by the Do call.
func (ef *effects) checkOnce(r *Run, pos func(ssa.Instruction) string) {
	for _, fn := range ef.fns {
		if isPkgInit(fn) {
			continue
		}
		var doCalls []*ssa.Call
		onceGlobals := map[*ssa.Global]bool{}
		for _, b := range fn.Blocks {
			for _, ins := range b.Instrs {
				if call, ok := ins.(*ssa.Call); ok {
					if callee := call.Common().StaticCallee(); callee != nil && callee.String() == "(*sync.Once).Do" {
						doCalls = append(doCalls, call)
						if fa, ok := call.Common().Args[0].(*ssa.FieldAddr); ok {
							if g, ok := fa.X.(*ssa.Global); ok {
								onceGlobals[g] = true
							}
						}
					}
				}
			}
		}
		for _, b := range fn.Blocks {
			for idx, ins := range b.Instrs {
				fa, ok := ins.(*ssa.FieldAddr)
				if !ok {
					continue
				}
				g, ok := fa.X.(*ssa.Global)
				if !ok || !hasOnceField(g) {
					continue
				}
				if strings.HasSuffix(TypeStr(fa.Type()), "sync.Once") {
					continue // the Once field itself
				}
				if fn.Parent() != nil && ef.insideOnceInit(fn, []*ssa.Global{g}) {
					continue // writes inside the initialiser are checked by checkWrite
				}
				k := fmt.Sprintf("%s access to %s.%s", ef.fnName(fn), g.Name(), fieldName(fa))
				dominated := false
				for _, dc := range doCalls {
					if !onceGlobals[g] {
						continue
					}
					if dc.Block() == b {
						for j, i2 := range b.Instrs {
							if i2 == ssa.Instruction(dc) && j < idx {
								dominated = true
							}
						}
					} else if dc.Block().Dominates(b) {
						dominated = true
					}
				}
				r.Check(dominated, "C14/globals", k, pos(ins), "lazily initialised table is read only after its sync.Once.Do in the same function", "field of a sync.Once-guarded package-level variable is accessed on a path that does not pass through the Once.Do call: first use in a fresh process races with initialisation")
			}
		}
	}
}

func hasOnceField(g *ssa.Global) bool {
	pt, ok := g.Type().(*types.Pointer)
	if !ok {
		return false
	}
	st, ok := pt.Elem().Underlying().(*types.Struct)
	if !ok {
		return false
	}
	for i := 0; i < st.NumFields(); i++ {
		if TypeStr(st.Field(i).Type()) == "sync.Once" {
			return true
		}
	}
	return false
}

func fieldName(fa *ssa.FieldAddr) string {
	pt := fa.X.Type().Underlying().(*types.Pointer)
	st := pt.Elem().Underlying().(*types.Struct)
	return st.Field(fa.Field).Name()
}

// checkCall: no ambient/nondeterministic callee; arguments handed to non-module code are not mutated there
// unless call-local.
func (ef *effects) checkCall(r *Run, fn *ssa.Function, call ssa.CallInstruction, key func(*ssa.Function, string) string, pos func(ssa.Instruction) string, onceT string) {
	com := call.Common()
	if _, isB := com.Value.(*ssa.Builtin); isB {
		b := com.Value.(*ssa.Builtin)
		switch b.Name() {
		case "append", "copy", "delete", "clear":
			if isPkgInit(fn) {
				return
			}
			// these write through their first argument
			c := ef.valueClass(com.Args[0])
			k := key(fn, b.Name())
			if b.Name() == "append" {
				// append only writes into spare capacity of the old backing array; the result is what matters,
				// but a shared backing array with spare capacity is still a write to it.
				if c&^clsLocal == 0 {
					r.Pass("C14/write-local", k, pos(call), "append to a call-local slice")
				} else {
					r.Fail("C14/write-local", k, pos(call), fmt.Sprintf("append to a slice whose backing array may be %s", c))
				}
				return
			}
			if c&^clsLocal == 0 {
				r.Pass("C14/write-local", k, pos(call), b.Name()+" on call-local memory")
			} else {
				r.Fail("C14/write-local", k, pos(call), fmt.Sprintf("%s writes to memory that may be %s", b.Name(), c))
			}
		}
		return
	}
	if isPkgInit(fn) {
		if callee := com.StaticCallee(); callee != nil && isPkgInit(callee) {
			return
		}
	}
	var calleePkg, calleeName string
	if com.IsInvoke() {
		if com.Method.Pkg() != nil {
			calleePkg = com.Method.Pkg().Path()
		}
		calleeName = com.Method.FullName()
	} else if callee := com.StaticCallee(); callee != nil {
		calleePkg = fnPkgPath(callee)
		calleeName = callee.String()
	} else {
		// dynamic call through a function value: allowed (visitor callbacks, table of writers); its targets are
		// module functions analysed separately or caller-supplied visitors.
		r.Pass("C14/call", key(fn, "dynamic call"), pos(call), "function value: module targets are analysed as functions of their own; caller-supplied callbacks run in the caller's goroutine")
		return
	}
	k := key(fn, "call "+strings.ReplaceAll(strings.ReplaceAll(calleeName, PathParser, "parser"), PathPQL, "pql"))
	switch calleePkg {
	case "time", "math/rand", "math/rand/v2", "crypto/rand", "os", "runtime", "unsafe", "reflect", "net", "syscall", "os/exec", "runtime/debug":
		r.Fail("C14/ambient", k, pos(call), "call into "+calleePkg+": the result of compilation could depend on time, randomness, the environment or the scheduler")
		return
	}
	if libPath(calleePkg) {
		r.Pass("C14/call", k, pos(call), "module function (analysed itself)")
		return
	}
	// non-module callee: which arguments may it mutate?
	mut := mutatedArgs(calleeName, len(com.Args), com.IsInvoke())
	if mut == nil {
		r.Pass("C14/call", k, pos(call), "standard-library function that does not write through its arguments (reviewed list)")
		return
	}
	if strings.HasPrefix(calleeName, "(*sync.Once).Do") {
		r.PassNT("C14/call", k, pos(call), "sync.Once.Do: the only synchronisation primitive allowed")
		return
	}
	if mut[0] == -1 {
		r.Fail("C14/call", k, pos(call), "call to a function outside the module that is not in the reviewed effect table; cannot decide what it writes")
		return
	}
	okAll := true
	var bad memClass
	for _, i := range mut {
		if i < len(com.Args) {
			c := ef.valueClass(com.Args[i])
			if c&^clsLocal != 0 {
				okAll = false
				bad |= c
			}
		}
	}
	if okAll {
		r.PassNT("C14/call", k, pos(call), "mutating standard-library call on call-local memory only")
	} else {
		r.Fail("C14/write-local", k, pos(call), fmt.Sprintf("%s mutates an argument that may be %s", calleeName, bad))
	}
}

// mutatedArgs: reviewed effect table of the non-module functions the library calls.
// nil = writes through no argument; {-1} = unknown function.
func mutatedArgs(name string, nargs int, invoke bool) []int {
	readOnlyPrefixes := []string{
		"fmt.Errorf", "fmt.Sprintf", "fmt.Sprint", "errors.", "strings.", "strconv.", "unicode.", "unicode/utf8.", "(error).Error",
		"golang.org/x/exp/maps.Keys", "maps.Keys", "slices.Clone", "(*strings.Builder).String", "(*strings.Builder).Len",
		"(fmt.Stringer).String", "(interface{Unwrap() []error}).Unwrap", "min", "max",
		"maps.Clone", "slices.Contains", "slices.Index", "slices.Equal", "slices.Max", "slices.Min", "slices.BinarySearch",
	}
	for _, p := range readOnlyPrefixes {
		if strings.HasPrefix(name, p) {
			return nil
		}
	}
	switch {
	case strings.HasPrefix(name, "(*strings.Builder)."):
		return []int{0}
	case strings.HasPrefix(name, "fmt.Fprintf"), strings.HasPrefix(name, "fmt.Fprint"):
		return []int{0}
	case strings.HasPrefix(name, "(*strings.Replacer).WriteString"), strings.HasPrefix(name, "io.WriteString"):
		return []int{1} // (receiver,) writer, text: writes to the writer only
	case strings.HasPrefix(name, "(*strings.Replacer).Replace"):
		return nil
	case strings.HasPrefix(name, "slices.Sort"), strings.HasPrefix(name, "sort."), strings.HasPrefix(name, "slices.Reverse"):
		return []int{0}
	case strings.HasPrefix(name, "maps.Copy"):
		return []int{0} // inserts every entry of the source into the destination: the result does not depend on iteration order
	case strings.HasPrefix(name, "(*sync.Once).Do"):
		return []int{0}
	}
	if invoke {
		// interface method of a module interface (Span, expression, ...) or error/Unwrap: read-only by the
		// write-local rule applied to every module method body.
		return nil
	}
	return []int{-1}
}

// checkMapRange: iterating a map is order-dependent; allowed only when the loop merely copies into a fresh map.
func (ef *effects) checkMapRange(r *Run, fn *ssa.Function, rng *ssa.Range, key func(*ssa.Function, string) string, pos func(ssa.Instruction) string) {
	k := key(fn, "range over map")
	okAll := true
	why := "the loop only inserts the current key/value into a call-local map (result independent of iteration order)"
	for _, ref := range *rng.Referrers() {
		next, ok := ref.(*ssa.Next)
		if !ok {
			continue
		}
		for _, nref := range *next.Referrers() {
			ext, ok := nref.(*ssa.Extract)
			if !ok || ext.Index == 0 {
				continue // the ok flag
			}
			for _, use := range *ext.Referrers() {
				switch u := use.(type) {
				case *ssa.MapUpdate:
					if c := ef.valueClass(u.Map); c&^clsLocal != 0 {
						okAll, why = false, "map range writes into a map that is not call-local"
					}
				case *ssa.DebugRef:
				default:
					okAll, why = false, fmt.Sprintf("a map is iterated and the key/value is used by %T: Go's map order is random, so output could differ between identical calls", use)
				}
			}
		}
	}
	r.Check(okAll, "C14/map-order", k, pos(rng), why, why)
}

// checkNilOpts: every dereference of the receiver of (*CompileOptions).Compile is dominated by `opts != nil`.
func (ef *effects) checkNilOpts(r *Run) {
	for _, fn := range ef.fns {
		// every method of the options type (Compile, and helpers that were split off it): a nil receiver is legal
		if fn.Signature.Recv() == nil || fnPkgPath(fn) != PathPQL || len(fn.Params) == 0 || len(fn.Blocks) == 0 {
			continue
		}
		if rt := strings.TrimPrefix(TypeStr(fn.Signature.Recv().Type()), "*"); rt != "pql.CompileOptions" {
			continue
		}
		if _, isPtr := fn.Signature.Recv().Type().(*types.Pointer); !isPtr {
			continue
		}
		recv := fn.Params[0]
		n := 0
		for _, b := range fn.Blocks {
			for _, ins := range b.Instrs {
				var deref ssa.Value
				switch x := ins.(type) {
				case *ssa.FieldAddr:
					deref = x.X
				case *ssa.UnOp:
					if x.Op == token.MUL {
						deref = x.X
					}
				}
				if deref != ssa.Value(recv) {
					continue
				}
				n++
				guarded := false
				for _, d := range fn.Blocks {
					ifi, ok := d.Instrs[len(d.Instrs)-1].(*ssa.If)
					if !ok {
						continue
					}
					bo, ok := ifi.Cond.(*ssa.BinOp)
					if !ok {
						continue
					}
					isRecvNil := func(a, c ssa.Value) bool {
						k, ok := c.(*ssa.Const)
						return a == ssa.Value(recv) && ok && k.IsNil()
					}
					if !(isRecvNil(bo.X, bo.Y) || isRecvNil(bo.Y, bo.X)) {
						continue
					}
					var safe *ssa.BasicBlock
					switch bo.Op {
					case token.NEQ:
						safe = d.Succs[0]
					case token.EQL:
						safe = d.Succs[1]
					}
					if safe != nil && len(safe.Preds) == 1 && safe.Dominates(b) {
						guarded = true
					}
				}
				r.Check(guarded, "C14/nil-opts", fmt.Sprintf("pql.(*CompileOptions).%s dereference of the receiver #%d", fn.Name(), n), ef.p.Pos(ins.Pos()), "dominated by `opts != nil`", "the options receiver is dereferenced on a path where it may be nil: Compile(source) (nil options) would panic instead of behaving like the zero value")
			}
		}
		// the package-level Compile passes a nil receiver
	}
}

// checkFormats: no %p, and no %v/%s/%d of a pointer without String/Error in constant format strings.
func (ef *effects) checkFormats(r *Run, pos func(ssa.Instruction) string) {
	n := 0
	for _, fn := range ef.fns {
		for _, b := range fn.Blocks {
			for _, ins := range b.Instrs {
				call, ok := ins.(ssa.CallInstruction)
				if !ok {
					continue
				}
				callee := call.Common().StaticCallee()
				if callee == nil || fnPkgPath(callee) != "fmt" {
					continue
				}
				n++
				k := fmt.Sprintf("%s fmt call #%d (%s)", ef.fnName(fn), n, callee.Name())
				var format string
				hasFormat := false
				for _, a := range call.Common().Args {
					if c, ok := a.(*ssa.Const); ok && c.Value != nil && c.Value.Kind() == constant.String {
						format = constant.StringVal(c.Value)
						hasFormat = true
						break
					}
				}
				if !hasFormat && strings.HasSuffix(callee.Name(), "f") {
					// a wrapper that forwards its own format parameter: every call site must pass a constant
					okFwd := false
					for _, a := range call.Common().Args {
						par, isPar := a.(*ssa.Parameter)
						if !isPar || len(ef.callers[fn]) == 0 || ef.exposed[fn] {
							continue
						}
						idx := -1
						for i, pp := range fn.Params {
							if pp == par {
								idx = i
							}
						}
						// every call site passes a constant, or forwards its own format parameter in turn
						var constAt func(f *ssa.Function, idx, depth int) bool
						constAt = func(f *ssa.Function, idx, depth int) bool {
							if idx < 0 || depth > 4 || len(ef.callers[f]) == 0 || ef.exposed[f] {
								return false
							}
							for _, site := range ef.callers[f] {
								args := site.Common().Args
								if idx >= len(args) {
									return false
								}
								switch a := args[idx].(type) {
								case *ssa.Const:
									if a.Value == nil || a.Value.Kind() != constant.String || strings.Contains(constant.StringVal(a.Value), "%p") {
										return false
									}
								case *ssa.Parameter:
									outer := site.Parent()
									j := -1
									for i, pp := range outer.Params {
										if pp == a {
											j = i
										}
									}
									if outer == f || !constAt(outer, j, depth+1) {
										return false
									}
								default:
									return false
								}
							}
							return true
						}
						okFwd = constAt(fn, idx, 0)
						if okFwd {
							break
						}
					}
					r.Check(okFwd, "C14/format", k, pos(ins), fmt.Sprintf("format forwarded from a parameter; all %d call sites of %s pass a constant format without %%p", len(ef.callers[fn]), fn.Name()), "non-constant format string: cannot decide that no pointer value is printed")
					continue
				}
				if strings.Contains(format, "%p") {
					r.Fail("C14/format", k, pos(ins), "%p prints an address: output would differ between identical calls")
					continue
				}
				// variadic operands: look for pointers without a String/Error method formatted by %v/%s
				bad := ""
				if strings.Contains(format, "%v") || strings.Contains(format, "%s") || strings.Contains(format, "%+v") || !strings.HasSuffix(callee.Name(), "f") {
					for _, a := range call.Common().Args {
						sl, ok := a.(*ssa.Slice)
						if !ok {
							continue
						}
						alloc, ok := sl.X.(*ssa.Alloc)
						if !ok {
							continue
						}
						for _, ref := range *alloc.Referrers() {
							ia, ok := ref.(*ssa.IndexAddr)
							if !ok {
								continue
							}
							for _, st := range *ia.Referrers() {
								store, ok := st.(*ssa.Store)
								if !ok {
									continue
								}
								mi, ok := store.Val.(*ssa.MakeInterface)
								if !ok {
									continue
								}
								t := mi.X.Type()
								if _, isPtr := t.Underlying().(*types.Pointer); isPtr && !hasMethod(t, "Error") && !hasMethod(t, "String") && strings.Contains(format, "%v") {
									bad = "operand of type " + TypeStr(t) + " is a pointer without String/Error: %v would print its address"
								}
							}
						}
					}
				}
				r.Check(bad == "", "C14/format", k, pos(ins), "constant format without %p; no bare pointer operand", bad)
			}
		}
	}
}

func hasMethod(t types.Type, name string) bool {
	ms := types.NewMethodSet(t)
	for i := 0; i < ms.Len(); i++ {
		if ms.At(i).Obj().Name() == name {
			return true
		}
	}
	return false
}

// checkGlobalsTable enumerates every package-level variable of the two library packages with its writers.
func (ef *effects) checkGlobalsTable(r *Run) {
	sp := ef.p.SSA()
	for _, path := range []string{PathPQL, PathParser} {
		pkg := sp.Pkgs[path]
		var names []string
		for name, m := range pkg.Members {
			if _, ok := m.(*ssa.Global); ok && !strings.HasPrefix(name, "init$") {
				names = append(names, name)
			}
		}
		sort.Strings(names)
		for _, name := range names {
			g := pkg.Members[name].(*ssa.Global)
			writers := map[string]bool{}
			reads := 0
			for _, fn := range ef.fns {
				for _, b := range fn.Blocks {
					for _, ins := range b.Instrs {
						var addr ssa.Value
						switch x := ins.(type) {
						case *ssa.Store:
							addr = x.Addr
						case *ssa.MapUpdate:
							addr = x.Map
						default:
							var ops []*ssa.Value
							for _, op := range ins.Operands(ops) {
								if *op == ssa.Value(g) {
									reads++
								}
							}
							continue
						}
						var rs []ssa.Value
						ef.roots(addr, map[ssa.Value]bool{}, &rs)
						for _, root := range rs {
							if root == ssa.Value(g) && !isPkgInit(fn) && !ef.insideOnceInit(fn, []*ssa.Global{g}) {
								writers[ef.fnName(fn)] = true
							}
						}
					}
				}
			}
			var ws []string
			for w := range writers {
				ws = append(ws, w)
			}
			sort.Strings(ws)
			k := fmt.Sprintf("package-level variable %s.%s", pkg.Pkg.Name(), name)
			r.Check(len(ws) == 0, "C14/globals", k, ef.p.Pos(g.Pos()), fmt.Sprintf("written only by package initialisation (or its own sync.Once initialiser); %d read sites", reads), "written after initialisation by "+strings.Join(ws, ", ")+": state shared between calls")
		}
	}
}

// checkSortedKeys: a key list taken from a map is sorted before anything else looks at it.
func (ef *effects) checkSortedKeys(r *Run, pos func(ssa.Instruction) string) {
	for _, fn := range ef.fns {
		for _, b := range fn.Blocks {
			for i, ins := range b.Instrs {
				call, ok := ins.(*ssa.Call)
				if !ok {
					continue
				}
				callee := call.Common().StaticCallee()
				if callee == nil || !(strings.HasPrefix(callee.String(), "golang.org/x/exp/maps.Keys") || strings.HasPrefix(callee.String(), "golang.org/x/exp/maps.Values") || strings.HasPrefix(callee.String(), "maps.Keys") || strings.HasPrefix(callee.String(), "maps.Values")) {
					continue
				}
				k := fmt.Sprintf("%s key list of %s", ef.fnName(fn), callee.Name())
				sortedAt := -1
				for j := i + 1; j < len(b.Instrs); j++ {
					c2, ok := b.Instrs[j].(*ssa.Call)
					if !ok {
						continue
					}
					cal2 := c2.Common().StaticCallee()
					if cal2 != nil && (strings.HasPrefix(cal2.String(), "slices.Sort") || cal2.String() == "sort.Strings") && len(c2.Common().Args) > 0 && c2.Common().Args[0] == ssa.Value(call) {
						sortedAt = j
						break
					}
				}
				ok2 := sortedAt >= 0
				if ok2 {
					for _, ref := range *call.Referrers() {
						if _, dbg := ref.(*ssa.DebugRef); dbg {
							continue
						}
						if ref.Block() == b {
							for j, i2 := range b.Instrs {
								if i2 == ref && j < sortedAt {
									ok2 = false
								}
							}
						} else if !b.Dominates(ref.Block()) {
							ok2 = false
						}
					}
				}
				r.Check(ok2, "C14/map-order", k, pos(ins), "keys of a map are sorted before any other use", "the keys of a map are used in Go's random iteration order (not sorted first): error text would differ between identical calls")
			}
		}
	}
}

// isPkgInit: the synthetic package initializer or a declared `func init()` (go/ssa names them init#1, init#2, ...):
// code that runs once, before any exported function can be called.
func isPkgInit(fn *ssa.Function) bool {
	if fn == nil {
		return false
	}
	if fn.Synthetic == "package initializer" {
		return true
	}
	return fn.Parent() == nil && fn.Signature.Recv() == nil && fn.Signature.Params().Len() == 0 && fn.Signature.Results().Len() == 0 && strings.HasPrefix(fn.Name(), "init#")
}
