#!/bin/bash
# usage: trypatch.sh <patch.diff> [pqlcheck-binary] [properties...]   (development helper)
P=$1; BIN=${2:-/verif/pqlcheck}; shift; shift
W=$(mktemp -d /tmp/tryp.XXXX); rmdir $W
git -C /repo worktree add -q --detach $W HEAD || exit 9
git -C $W apply $P || { echo APPLY-FAILED; git -C /repo worktree remove --force $W; exit 8; }
VERIF_DIR=/verif $BIN check ${@:-all} --no-evidence --repo $W 2>&1 | grep -E "^== |^  violation|CHECKER-ERROR" | grep -vE " 0 violated" | cut -c1-300
git -C /repo worktree remove --force $W
